"""Value graph: a syntax-directed symbolic walk of one function producing a
hash-consed expression DAG per *path* (static case splits are enumerated while
the graph is built, so closures capture the already-specialised environment).

Nodes are plain tuples (structural equality = global value numbering):

  ("param", name)            ("const", v)             ("global", qualname)
  ("attr", base, name)       ("sub", base, index)     ("slice", lo, hi, step)
  ("call", f, args, kwargs)  ("item", node, i)
  ("bin", op, a, b) ("un", op, a) ("cmp", op, a, b) ("boolop", op, parts)
  ("tuple", elts) ("list", elts) ("dict", ((k, v), ...)) ("set", elts)
  ("ite", pred, a, b)        ("scan", f, init, xs, length, reverse)
  ("while", cond, body, init)
  ("record", cls_qualname, ((field, node), ...))
  ("update", base, ((path, node), ...))       path = tuple of field names
  ("gradfn", f, has_aux)  ("vmapfn", f, kwargs)  ("partial", f, args, kwargs)
  ("comp", kind, elt, gens)  ("bound", depth, i)  ("loop", iter, init, body)
  ("star", node) ("dstar", node) ("super", cls_qualname)
  Closure objects (identity) for lambdas / nested defs / function references.
"""
from __future__ import annotations

import ast
from dataclasses import dataclass, field

from .model import AnalysisError, ClassInfo, ModuleInfo, Program


class Unsupported(AnalysisError):
    pass


class _Return(Exception):
    def __init__(self, value):
        self.value = value


class _Raise(Exception):
    def __init__(self, value):
        self.value = value


class _Continue(Exception):
    pass


class _Break(Exception):
    pass


class BoolConst:
    """Python's True/False as graph constants. Not `bool`, because True == 1 and False == 0 would make
    ("const", False) and ("const", 0) the same dictionary key."""

    __slots__ = ("v",)

    def __init__(self, v):
        self.v = v

    def __bool__(self):
        return self.v

    def __repr__(self):
        return "True" if self.v else "False"


PyTrue, PyFalse = BoolConst(True), BoolConst(False)
NONE = ("const", None)
TRUE = ("const", PyTrue)
FALSE = ("const", PyFalse)


@dataclass
class Ctx:
    module: ModuleInfo
    cls: ClassInfo | None = None  # class whose body lexically contains the function
    fn: ast.AST | None = None
    self_cls: ClassInfo | None = None  # dynamic class of `self` for MRO resolution


class SelfObj:
    """The object under construction while a custom __init__ is inlined."""

    __slots__ = ("attrs", "cls")

    def __init__(self, cls):
        self.attrs = {}
        self.cls = cls

    def __repr__(self):
        return f"<selfobj {self.cls.name}>"


class Closure:
    """A function value: lambda, nested def, or reference to a module/class function."""

    __slots__ = ("node", "env", "ctx", "name", "bound_self", "snapped", "qualname")

    def __init__(self, node, env, ctx, name="<lambda>", bound_self=None, qualname=None):
        self.node = node
        self.env = env
        self.ctx = ctx
        self.name = name
        self.bound_self = bound_self
        self.snapped = False
        self.qualname = qualname

    def snapshot(self):
        if self.snapped or self.env is None:
            return self
        c = Closure(self.node, dict(self.env), self.ctx, self.name, self.bound_self, self.qualname)
        c.snapped = True
        return c

    @property
    def args(self) -> ast.arguments:
        return self.node.args

    def param_names(self) -> list[str]:
        a = self.args
        names = [x.arg for x in a.posonlyargs + a.args]
        if self.bound_self is not None and names:
            names = names[1:]
        return names

    def __repr__(self):
        return f"<closure {self.qualname or self.name}@{getattr(self.node, 'lineno', '?')}>"


@dataclass
class Path:
    conds: list  # [(test node, bool)]
    ret: object  # node or None
    raised: object  # node or None
    env: dict
    self_attrs: dict
    effects: list  # [(kind, node, lineno)]
    asserts: list


# ---------------------------------------------------------------------------
# idiom tables (callee names frozen from the tree; see DESIGN.md §2.2)
COND = {"jax.lax.cond", "lerax.utils.filter_cond"}
SELECT = {"jax.numpy.where", "jax.lax.select"}
SCAN = {"jax.lax.scan", "lerax.utils.filter_scan"}
WHILE = {"jax.lax.while_loop"}
TREE_AT = {"equinox.tree_at"}
GRAD = {"equinox.filter_value_and_grad", "jax.value_and_grad"}
VMAP = {"jax.vmap", "equinox.filter_vmap"}
IDENT_WRAP = {"staticmethod", "classmethod", "equinox.filter_jit", "jax.jit"}
PARTIAL = {"functools.partial"}

BUILTINS = {
    "len", "range", "zip", "enumerate", "isinstance", "issubclass", "tuple", "list", "dict", "set",
    "int", "float", "bool", "str", "max", "min", "sum", "abs", "any", "all", "sorted", "reversed",
    "type", "print", "locals", "super", "hash", "id", "getattr", "setattr", "hasattr", "map", "filter",
    "NotImplemented", "NotImplementedError", "ValueError", "TypeError", "KeyError", "RuntimeError",
    "AssertionError", "Exception", "iter", "next", "frozenset", "round", "divmod", "pow", "repr",
    "callable", "object", "slice", "property", "vars", "globals", "open", "Ellipsis", "IndexError",
    "ImportError", "ModuleNotFoundError", "AttributeError", "StopIteration", "bytes", "complex",
    "NotADirectoryError", "FileNotFoundError", "OSError", "DeprecationWarning", "UserWarning",
    "__name__", "__file__",
}


class Builder:
    """Builds value graphs for functions of a Program."""

    def __init__(self, prog: Program, inline=None, max_depth: int = 8, construct_inline: bool = True,
                 static_fold: bool = True, merge_ifs: bool = False):
        self.merge_ifs = merge_ifs  # data-dependent `if` blocks of pure assignments become ite merges (reference sources)
        self.prog = prog
        self.inline = inline or (lambda kind, name, cls: False)
        self.max_depth = max_depth
        self.construct_inline = construct_inline
        self.ntype: dict = {}
        self.decisions: dict = {}
        self.lowered_idioms: set = set()
        self.trace: list = []
        self.effects: list = []
        self.asserts: list = []
        self.depth = 0
        self.unresolved_calls = 0
        self.resolved_calls = 0
        self.bound_depth = 0
        self.node_count = 0

    # ------------------------------------------------------------------ driver
    def paths(self, fn: ast.FunctionDef, ctx: Ctx, binding: dict | None = None, max_paths: int = 256,
              fixed: dict | None = None) -> list[Path]:
        """Enumerate all static-case paths through fn (DFS over test outcomes)."""
        return self._enumerate(lambda: self._run_function(fn, ctx, binding), max_paths, fixed, getattr(fn, "name", "?"))

    def apply_paths(self, clo: "Closure", args: tuple, kwargs: tuple = (), max_paths: int = 64, fixed: dict | None = None) -> list[Path]:
        """Enumerate the static-case paths of applying a closure to argument nodes."""

        def runner():
            try:
                return self.apply(clo, args, kwargs), {}, {}
            except _Return as r:  # pragma: no cover
                return r.value, {}, {}

        return self._enumerate(runner, max_paths, fixed, repr(clo))

    def _enumerate(self, runner, max_paths, fixed, what) -> list[Path]:
        results: list[Path] = []
        stack: list[list] = [[]]  # prefixes of forced decisions [(test, value)]
        seen_prefix = set()
        while stack:
            prefix = stack.pop()
            self.decisions = {dkey(t): v for t, v in (fixed or {}).items()}
            for t, v in prefix:
                self.decisions[dkey(t)] = v
            self.trace = []
            self.effects = []
            self.asserts = []
            self.depth = 0
            ret = raised = None
            env = {}
            self_attrs = {}
            try:
                ret, env, self_attrs = runner()
            except _Raise as r:
                raised = r.value
            trace = list(self.trace)
            results.append(Path(trace, ret, raised, env, self_attrs, list(self.effects), list(self.asserts)))
            if len(results) > max_paths:
                raise Unsupported(f"more than {max_paths} static paths in {what}")
            # schedule alternatives for decisions made by default beyond the forced prefix
            forced = len(prefix)
            for i in range(len(trace) - 1, forced - 1, -1):
                alt = trace[:i] + [(trace[i][0], not trace[i][1])]
                key = tuple((dkey(t), v) for t, v in alt)
                if key not in seen_prefix:
                    seen_prefix.add(key)
                    stack.append(alt)
        return results

    def _run_function(self, fn, ctx: Ctx, binding):
        env: dict = {}
        self.self_attrs = {}
        args = fn.args
        allp = args.posonlyargs + args.args + args.kwonlyargs
        for a in allp:
            node = ("param", a.arg)
            env[a.arg] = node
            ci = None
            if a.arg in ("self", "cls") and ctx.cls is not None and a is (args.posonlyargs + args.args)[0]:
                ci = ctx.self_cls or ctx.cls
            else:
                ci = self.prog.annotation_class(ctx.module, a.annotation, ctx.cls, fn)
            if ci is not None:
                self.ntype[node] = ci
        if args.vararg:
            env[args.vararg.arg] = ("param", "*" + args.vararg.arg)
        if args.kwarg:
            env[args.kwarg.arg] = ("param", "**" + args.kwarg.arg)
        if binding:
            env.update(binding)
        self.cur_self_param = (args.posonlyargs + args.args)[0].arg if (args.posonlyargs + args.args) else None
        ret = None
        try:
            self.run(fn.body, env, ctx)
        except _Return as r:
            ret = r.value
        return ret, env, dict(self.self_attrs)

    # ------------------------------------------------------------------ statements
    def run(self, body, env, ctx):
        for s in body:
            self.stmt(s, env, ctx)

    def stmt(self, s, env, ctx):
        if isinstance(s, ast.Assign):
            v = self.snap(self.ev(s.value, env, ctx))
            for t in s.targets:
                self.bind(t, v, env, ctx)
        elif isinstance(s, ast.AnnAssign):
            if s.value is not None:
                self.bind(s.target, self.snap(self.ev(s.value, env, ctx)), env, ctx)
        elif isinstance(s, ast.AugAssign):
            cur = self.ev(_load(s.target), env, ctx)
            v = self.mk_bin(type(s.op).__name__, cur, self.ev(s.value, env, ctx))
            self.bind(s.target, v, env, ctx)
        elif isinstance(s, ast.Return):
            raise _Return(self.snap(self.ev(s.value, env, ctx)) if s.value is not None else NONE)
        elif isinstance(s, ast.FunctionDef):
            v = Closure(s, env, ctx, s.name)
            for dec in reversed(s.decorator_list):
                d = self.ev(dec, env, ctx)
                v = self.snap(self.mk_call(d, (self.snap(v),), (), ctx, lineno=s.lineno))
            env[s.name] = v
        elif isinstance(s, ast.If):
            test = self.ev(s.test, env, ctx)
            if self.merge_ifs and self.fold(test) is None and dkey(test) not in self.decisions and _only_assigns(s.body) and _only_assigns(s.orelse):
                e1, e2 = dict(env), dict(env)
                self.run(s.body, e1, ctx)
                self.run(s.orelse, e2, ctx)
                for k in set(e1) | set(e2):
                    a, b_ = e1.get(k, env.get(k)), e2.get(k, env.get(k))
                    if a is None or b_ is None:
                        continue
                    env[k] = a if a == b_ else self.mk_ite(test, a, b_)
                return
            if self.decide(test, s):
                self.run(s.body, env, ctx)
            else:
                self.run(s.orelse, env, ctx)
        elif isinstance(s, ast.Expr):
            if isinstance(s.value, ast.Constant):
                return
            v = self.ev(s.value, env, ctx)
            self.effects.append(("expr", v, s.lineno))
        elif isinstance(s, ast.Assert):
            self.asserts.append((self.ev(s.test, env, ctx), s.lineno))
        elif isinstance(s, ast.Raise):
            raise _Raise(self.ev(s.exc, env, ctx) if s.exc is not None else NONE)
        elif isinstance(s, ast.Pass):
            pass
        elif isinstance(s, ast.Continue):
            raise _Continue()
        elif isinstance(s, ast.Break):
            raise _Break()
        elif isinstance(s, (ast.Import, ast.ImportFrom)):
            self.local_import(s, env, ctx)
        elif isinstance(s, ast.For):
            self.for_loop(s, env, ctx)
        elif isinstance(s, (ast.Global, ast.Nonlocal)):
            self.effects.append(("global", ("const", tuple(s.names)), s.lineno))
        elif isinstance(s, ast.Delete):
            self.effects.append(("delete", NONE, s.lineno))
        elif isinstance(s, ast.Try):
            # body is the normal path; handlers are recorded as effects only
            self.run(s.body, env, ctx)
            self.run(s.orelse, env, ctx)
            self.run(s.finalbody, env, ctx)
        elif isinstance(s, ast.With):
            for it in s.items:
                v = self.ev(it.context_expr, env, ctx)
                self.effects.append(("with", v, s.lineno))
                if it.optional_vars is not None:
                    self.bind(it.optional_vars, ("call", ("attr", v, "__enter__"), (), ()), env, ctx)
            self.run(s.body, env, ctx)
        elif isinstance(s, ast.Match):
            self.run([self.desugar_match(s)], env, ctx)
        elif isinstance(s, ast.While):
            raise Unsupported(f"while statement at line {s.lineno}")
        elif isinstance(s, ast.ClassDef):
            env[s.name] = ("localclass", s.name, s.lineno)
        else:
            raise Unsupported(f"statement {type(s).__name__} at line {getattr(s, 'lineno', '?')}")

    def desugar_match(self, s: ast.Match):
        """`match x: case A(): ... case None: ... case _: ...` as the if / elif chain it abbreviates (class patterns without
        sub-patterns are isinstance tests, singletons identity tests, values equality tests, `|` a disjunction, guards conjoined;
        capture patterns bind the subject). Anything richer is unsupported. The chain is built once per Match node."""
        cached = getattr(s, "_lerax_sa_if", None)
        if cached is not None:
            return cached
        subj = f"__match_{s.lineno}_{s.col_offset}"

        def name():
            return ast.Name(id=subj, ctx=ast.Load())

        def test_of(p):
            """(test expression or None when irrefutable, [names bound to the subject])"""
            if isinstance(p, ast.MatchClass) and not p.patterns and not p.kwd_patterns:
                return ast.Call(func=ast.Name(id="isinstance", ctx=ast.Load()), args=[name(), p.cls], keywords=[]), []
            if isinstance(p, ast.MatchClass) and not p.patterns and all(isinstance(q, ast.MatchAs) and q.pattern is None for q in p.kwd_patterns):
                # Cls(attr=capture, ...): an isinstance test whose captures are the subject's attributes (the attributes exist on every
                # instance of a declared class, so the implicit hasattr tests are not modelled)
                caps = [(q.name, ast.Attribute(value=name(), attr=a_, ctx=ast.Load())) for a_, q in zip(p.kwd_attrs, p.kwd_patterns) if q.name]
                return ast.Call(func=ast.Name(id="isinstance", ctx=ast.Load()), args=[name(), p.cls], keywords=[]), caps
            if isinstance(p, ast.MatchSingleton):
                return ast.Compare(left=name(), ops=[ast.Is()], comparators=[ast.Constant(value=p.value)]), []
            if isinstance(p, ast.MatchValue):
                return ast.Compare(left=name(), ops=[ast.Eq()], comparators=[p.value]), []
            if isinstance(p, ast.MatchAs):
                if p.pattern is None:
                    return None, ([p.name] if p.name else [])
                t, b = test_of(p.pattern)
                return t, b + ([p.name] if p.name else [])
            if isinstance(p, ast.MatchOr):
                parts = [test_of(q) for q in p.patterns]
                if any(b for _, b in parts):
                    raise Unsupported(f"match statement with captures in alternatives at line {s.lineno}")
                if any(t is None for t, _ in parts):
                    return None, []
                return ast.BoolOp(op=ast.Or(), values=[t for t, _ in parts]), []
            raise Unsupported(f"match pattern {type(p).__name__} at line {s.lineno}")

        chain = None
        for case in reversed(s.cases):
            t, binds = test_of(case.pattern)
            body = [ast.Assign(targets=[ast.Name(id=b[0] if isinstance(b, tuple) else b, ctx=ast.Store())], value=b[1] if isinstance(b, tuple) else name()) for b in binds] + list(case.body)
            if case.guard is not None:
                if binds:
                    raise Unsupported(f"match guard over a capture at line {s.lineno}")
                t = case.guard if t is None else ast.BoolOp(op=ast.And(), values=[t, case.guard])
            if t is None:
                chain = body  # irrefutable: everything after it is unreachable
            else:
                chain = [ast.If(test=t, body=body, orelse=chain or [])]
        head = ast.Assign(targets=[ast.Name(id=subj, ctx=ast.Store())], value=s.subject)
        out = ast.If(test=ast.Constant(value=True), body=[head] + (chain or []), orelse=[])
        for n in ast.walk(out):
            if not hasattr(n, "lineno"):
                ast.copy_location(n, s)
        ast.fix_missing_locations(out)
        s._lerax_sa_if = out
        return out

    def local_import(self, s, env, ctx):
        m = ctx.module
        if isinstance(s, ast.Import):
            for a in s.names:
                if a.asname:
                    env[a.asname] = ("global", a.name)
                else:
                    env[a.name.split(".")[0]] = ("global", a.name.split(".")[0])
        else:
            base = self.prog._abs_import(m, s.module, s.level)
            for a in s.names:
                q = self.prog.canonical(f"{base}.{a.name}" if base else a.name)
                env[a.asname or a.name] = self.global_node(q)

    def for_loop(self, s: ast.For, env, ctx):
        it = self.ev(s.iter, env, ctx)
        elems = self.static_elems(it)
        if elems is not None and len(elems) <= 128:
            broke = False
            for e in elems:
                self.bind(s.target, e, env, ctx)
                try:
                    self.run(s.body, env, ctx)
                except _Continue:
                    continue
                except _Break:
                    broke = True
                    break
            if not broke:
                self.run(s.orelse, env, ctx)
            return
        # opaque loop: evaluate the body once with symbolic loop variable / carries
        assigned = sorted(_assigned_names(s.body))
        self.bound_depth += 1
        d = self.bound_depth
        sub = dict(env)
        # loop targets are numbered like comprehension targets (structure of zip / enumerate / items elements); carried names from 8 on
        self.bind_bound(s.target, d, [0], sub, ctx, self.iter_shape(it)) if isinstance(s.target, (ast.Name, ast.Tuple, ast.List)) \
            else self.bind(s.target, ("bound", d, 0), sub, ctx)
        init = {}
        for i, n in enumerate(assigned):
            if n in env:
                init[n] = env[n]
                sub[n] = ("bound", d, i + 8)
        save_eff = len(self.effects)
        try:
            self.run(s.body, sub, ctx)
        except (_Continue, _Break):
            raise Unsupported(f"continue/break in a loop over a non-static iterable at line {s.lineno}") from None
        finally:
            self.bound_depth -= 1
        body_effects = tuple(e[1] for e in self.effects[save_eff:])
        for i, n in enumerate(assigned):
            if n in sub:
                env[n] = ("loop", it, init.get(n, NONE), sub[n], d)
        # a local list grown by one `append` per iteration is the list it started as plus the comprehension of the appended values
        # (`out = []; for a in xs: out.append(f(a))` is `[f(a) for a in xs]`); any other in-place growth stays an opaque loop value
        for n, before in list(env.items()):
            after = sub.get(n)
            if n in assigned or after is before or after == before:
                continue
            if isinstance(before, tuple) and before and before[0] == "list" and isinstance(after, tuple) and after and after[0] == "list" \
                    and len(after[1]) == len(before[1]) + 1 and after[1][:len(before[1])] == before[1] and not s.orelse \
                    and not any(isinstance(x, tuple) and x and x[0] == "bound" and x[1] == d and x[2] >= 8 for x in walk(after[1][-1])):
                grown = ("comp", "ListComp", after[1][-1], ((it, ()),), d)
                env[n] = grown if not before[1] else self.mk_bin("Add", before, grown)
            else:
                env[n] = ("loop", it, before, after, d)
        self.effects.append(("loop", ("loop", it, NONE, ("tuple", body_effects), d), s.lineno))

    @staticmethod
    def static_dict(n):
        """(key node, value) pairs, in insertion order, of a dict that is statically known: a display without `**` spreads, possibly
        followed by item assignments under constant keys (`d["k"] = v` replaces in place or appends, like Python); else None."""
        if isinstance(n, tuple) and n and n[0] == "dict":
            if any(k == ("const", "**") or not (isinstance(k, tuple) and k and k[0] in ("const", "global")) for k, _ in n[1]):
                return None
            return list(n[1])
        if isinstance(n, tuple) and n and n[0] == "setitem":
            base = Builder.static_dict(n[1])
            if base is None or not (isinstance(n[2], tuple) and n[2] and n[2][0] == "const"):
                return None
            out, done = [], False
            for k, v in base:
                if k == n[2]:
                    out.append((k, n[3]))
                    done = True
                else:
                    out.append((k, v))
            if not done:
                out.append((n[2], n[3]))
            return out
        return None

    def static_elems(self, it):
        """Elements of a statically known iterable, else None."""
        sd = self.static_dict(it)
        if sd is not None:
            return [k for k, _ in sd]
        if isinstance(it, tuple) and it and it[0] == "call" and isinstance(it[1], tuple) and it[1][0] == "attr" and it[1][2] in ("items", "keys", "values") and not it[2]:
            sd = self.static_dict(it[1][1])
            if sd is not None:
                return {"items": [("tuple", (k, v)) for k, v in sd], "keys": [k for k, _ in sd], "values": [v for _, v in sd]}[it[1][2]]
        if isinstance(it, tuple):
            if it[0] in ("tuple", "list"):
                if any(isinstance(e, tuple) and e and e[0] == "star" for e in it[1]):
                    return None
                return list(it[1])
            if it[0] == "call" and it[1] == ("global", "zip") and all(k_ == "strict" for k_, _ in it[3]):
                cols = [self.static_elems(a) for a in it[2]]
                if all(c is not None for c in cols) and cols:
                    n = min(len(c) for c in cols)
                    return [("tuple", tuple(c[i] for c in cols)) for i in range(n)]
            if it[0] == "call" and it[1] == ("global", "enumerate") and len(it[2]) == 1:
                c = self.static_elems(it[2][0])
                if c is not None:
                    return [("tuple", (("const", i), e)) for i, e in enumerate(c)]
            if it[0] == "call" and it[1] == ("global", "range") and all(
                a[0] == "const" and isinstance(a[1], int) for a in it[2]
            ):
                return [("const", i) for i in range(*[a[1] for a in it[2]])]
            if it[0] == "call" and it[1][0] == "attr" and it[1][2] in ("items", "keys", "values") and not it[2]:
                d = it[1][1]
                if isinstance(d, tuple) and d[0] == "dict":
                    if it[1][2] == "items":
                        return [("tuple", (k, v)) for k, v in d[1]]
                    if it[1][2] == "keys":
                        return [k for k, v in d[1]]
                    return [v for k, v in d[1]]
        return None

    def decide(self, test, where=None) -> bool:
        test = strip_not(test)
        neg = False
        while isinstance(test, tuple) and test[0] == "un" and test[1] == "Not":
            test = test[2]
            neg = not neg
        f = self.fold(test)
        if f is None:
            k_ = dkey(test)
            if k_ in self.decisions:
                f = self.decisions[k_]
            else:
                f = True
                self.decisions[k_] = True
            self.trace.append((test, f))
        return (not f) if neg else f

    def _names_class_or_function(self, q):
        """the qualified name is a class or a module-level function of the analysed package (an object that is never None)"""
        if q in self.prog.classes:
            return True
        mod, _, name = q.rpartition(".")
        mm = self.prog.modules.get(mod)
        return mm is not None and name in mm.functions

    def fold(self, t):
        """Static truth value of a test node if known."""
        if not isinstance(t, tuple):
            return None
        if t[0] == "const":
            return bool(t[1])
        if t[0] in ("tuple", "list", "dict", "set"):
            return len(t[1]) > 0
        if t[0] == "record" or isinstance(t, Closure):
            return True
        if t[0] == "cmp" and t[1] in ("Is", "IsNot") and t[3] == NONE:
            a = t[2]
            known_none = a == NONE
            known_not_none = isinstance(a, Closure) or (
                isinstance(a, tuple) and a[0] in ("tuple", "list", "dict", "record", "bin", "cmp", "update")
            ) or (isinstance(a, tuple) and a[0] == "const" and a[1] is not None) or (isinstance(a, tuple) and a and a[0] == "partial") or (
                isinstance(a, tuple) and a and a[0] == "global" and self._names_class_or_function(a[1]))
            if known_none:
                return t[1] == "Is"
            if known_not_none:
                return t[1] == "IsNot"
        if t[0] == "cmp" and t[2][0] == "const" and t[3][0] == "const":
            a, b = t[2][1], t[3][1]
            a = a.v if isinstance(a, BoolConst) else a
            b = b.v if isinstance(b, BoolConst) else b
            try:
                return {
                    "Eq": a == b, "NotEq": a != b, "Lt": a < b, "LtE": a <= b, "Gt": a > b, "GtE": a >= b,
                    "Is": a is b, "IsNot": a is not b,
                }[t[1]]
            except Exception:
                return None
        if t[0] == "boolop":
            vals = [self.fold(x) for x in t[2]]
            if t[1] == "And":
                if any(v is False for v in vals):
                    return False
                if all(v is True for v in vals):
                    return True
            else:
                if any(v is True for v in vals):
                    return True
                if all(v is False for v in vals):
                    return False
        if t[0] == "call" and t[1] == ("global", "isinstance") and len(t[2]) == 2:
            ci = None
            if isinstance(t[2][0], tuple) and t[2][0][0] == "record":
                ci = self.prog.classes.get(t[2][0][1])
            tgt = t[2][1]
            if ci is not None and tgt[0] == "global" and tgt[1] in self.prog.classes:
                return self.prog.is_subclass(ci, self.prog.classes[tgt[1]])
        return None

    # ------------------------------------------------------------------ binding
    def bind(self, t, v, env, ctx):
        if isinstance(t, ast.Name):
            env[t.id] = v
        elif isinstance(t, (ast.Tuple, ast.List)):
            star = [i for i, e in enumerate(t.elts) if isinstance(e, ast.Starred)]
            elems = None
            if isinstance(v, tuple) and v[0] in ("tuple", "list") and not any(
                isinstance(e, tuple) and e and e[0] == "star" for e in v[1]
            ):
                elems = v[1]
            if elems is None and star and isinstance(v, tuple) and v and v[0] == "call" and v[1] == ("global", "jax.random.split"):
                # jr.split(key, n) with a literal n has exactly n rows: a starred unpacking of it is as static as a plain one
                num = v[2][1] if len(v[2]) > 1 else dict((k_, x_) for k_, x_ in v[3] if k_).get("num", ("const", 2))
                if isinstance(num, tuple) and num[0] == "const" and isinstance(num[1], int) and not isinstance(num[1], bool) and 0 < num[1] <= 64:
                    elems = tuple(self.item(v, i) for i in range(num[1]))
            if not star:
                for i, e in enumerate(t.elts):
                    self.bind(e, elems[i] if elems is not None and i < len(elems) else self.item(v, i), env, ctx)
            else:
                k = star[0]
                after = len(t.elts) - k - 1
                for i, e in enumerate(t.elts[:k]):
                    self.bind(e, elems[i] if elems is not None else self.item(v, i), env, ctx)
                if elems is not None:
                    self.bind(t.elts[k].value, ("list", tuple(elems[k : len(elems) - after])), env, ctx)
                    for j, e in enumerate(t.elts[k + 1 :]):
                        self.bind(e, elems[len(elems) - after + j], env, ctx)
                else:
                    self.bind(t.elts[k].value, ("sub", v, ("slice", ("const", k), ("const", -after or None), NONE)), env, ctx)
                    for j, e in enumerate(t.elts[k + 1 :]):
                        self.bind(e, self.item(v, -(after - j)), env, ctx)
        elif isinstance(t, ast.Attribute):
            base = self.ev(t.value, env, ctx)
            if base == ("param", self.cur_self_param):
                # also inside an inlined method of the same object (a helper that assigns self.x updates the same object)
                self.self_attrs[t.attr] = v
            elif isinstance(base, SelfObj):
                base.attrs[t.attr] = v
            else:
                self.effects.append(("setattr", ("tuple", (base, ("const", t.attr), v)), t.lineno))
        elif isinstance(t, ast.Subscript):
            base = self.ev(t.value, env, ctx)
            idx = self.ev_slice(t.slice, env, ctx)
            if isinstance(t.value, ast.Name) and isinstance(base, tuple) and base[0] == "dict":
                env[t.value.id] = ("dict", tuple((k, x) for k, x in base[1] if k != idx) + ((idx, v),))
            elif isinstance(t.value, ast.Name) and t.value.id in env:
                env[t.value.id] = ("setitem", base, idx, v)  # local container mutation, modelled functionally
            else:
                self.effects.append(("setitem", ("tuple", (base, idx, v)), t.lineno))
        elif isinstance(t, ast.Starred):
            self.bind(t.value, v, env, ctx)
        else:
            raise Unsupported(f"assignment target {type(t).__name__}")

    def item(self, v, i):
        if isinstance(v, tuple) and v[0] in ("tuple", "list") and not any(
            isinstance(e, tuple) and e and e[0] == "star" for e in v[1]
        ):
            try:
                return v[1][i]
            except IndexError:
                pass
        if (isinstance(v, tuple) and v[0] == "call" and v[1] in (("global", "jax.numpy.array"), ("global", "jax.numpy.asarray")) and len(v[2]) == 1
                and isinstance(v[2][0], tuple) and v[2][0][0] in ("list", "tuple") and isinstance(i, int)
                and not any(isinstance(e, tuple) and e and e[0] == "star" for e in v[2][0][1])):
            try:
                return v[2][0][1][i]  # unpacking jnp.array([a, b, ...]) yields its elements
            except IndexError:
                pass
        if isinstance(v, tuple) and v[0] == "record" and isinstance(i, int):
            ci = self.prog.classes.get(v[1])
            if ci is not None and any(b.split(".")[-1] == "NamedTuple" for b in self.prog.external_bases(ci)):
                order = [f.name for f in self.prog.dataclass_fields(ci)]
                d = dict(v[2])
                if 0 <= i < len(order) and order[i] in d:
                    return d[order[i]]
        if isinstance(v, tuple) and v[0] == "ite":
            # distribute unpacking over a selection of tuples
            a, b = v[2], v[3]
            if all(isinstance(x, tuple) and x[0] in ("tuple", "list") for x in (a, b)):
                try:
                    return self.mk_ite(v[1], a[1][i], b[1][i])
                except IndexError:
                    pass
        n = ("item", v, i)
        return n

    def namedtuple_fields(self, v):
        """field values, in declared order, of a record whose class is a typing.NamedTuple (such a value IS the tuple of its fields:
        it unpacks, splices with `*` and indexes like one); None for anything else"""
        if not (isinstance(v, tuple) and v and v[0] == "record"):
            return None
        ci = self.prog.classes.get(v[1])
        if ci is None or not any(b.split(".")[-1] == "NamedTuple" for b in self.prog.external_bases(ci)):
            return None
        order = [f.name for f in self.prog.dataclass_fields(ci)]
        d = dict(v[2])
        if set(order) != set(d):
            return None
        return tuple(d[nm] for nm in order)

    def snap(self, v):
        if isinstance(v, Closure):
            return v.snapshot()
        return v

    # ------------------------------------------------------------------ expressions
    def global_node(self, q: str):
        """Node for a qualified global name; lerax functions/classes stay global refs."""
        return ("global", q)

    def name(self, ident: str, env, ctx):
        if ident in env:
            return env[ident]
        m = ctx.module
        q = self.prog.resolve_name(m, ident)
        if q is not None:
            # module-level constant assign inside lerax: evaluate its expression
            mod, _, attr = q.rpartition(".")
            mm = self.prog.modules.get(mod)
            if mm is not None and attr in mm.assigns and attr not in mm.functions and attr not in mm.classes:
                val = mm.assigns[attr]
                if isinstance(val, (ast.Constant, ast.UnaryOp, ast.BinOp, ast.Tuple, ast.Call, ast.Attribute, ast.Name)) and self.depth < self.max_depth:
                    self.depth += 1
                    try:
                        return self.ev(val, {}, Ctx(mm, None, None))
                    finally:
                        self.depth -= 1
            return self.global_node(q)
        if ident in BUILTINS or ident.startswith("__"):
            return ("global", ident)
        # type parameter names etc.
        return ("global", ident)

    def ev(self, e, env, ctx):
        self.node_count += 1
        if isinstance(e, ast.Name):
            return self.name(e.id, env, ctx)
        if isinstance(e, ast.Constant):
            if e.value is True:
                return TRUE
            if e.value is False:
                return FALSE
            return ("const", e.value)
        if isinstance(e, ast.Attribute):
            return self.attr(self.ev(e.value, env, ctx), e.attr, ctx)
        if isinstance(e, ast.BinOp):
            return self.mk_bin(type(e.op).__name__, self.ev(e.left, env, ctx), self.ev(e.right, env, ctx))
        if isinstance(e, ast.UnaryOp):
            v = self.ev(e.operand, env, ctx)
            op = type(e.op).__name__
            if op == "USub" and v[0] == "const" and isinstance(v[1], (int, float)) and not isinstance(v[1], bool):
                return ("const", -v[1])
            return ("un", op, v)
        if isinstance(e, ast.BoolOp):
            return ("boolop", type(e.op).__name__, tuple(self.ev(x, env, ctx) for x in e.values))
        if isinstance(e, ast.Compare):
            left = self.ev(e.left, env, ctx)
            parts = []
            for op, c in zip(e.ops, e.comparators):
                right = self.ev(c, env, ctx)
                parts.append(("cmp", type(op).__name__, left, right))
                left = right
            if len(parts) == 1:
                return parts[0]
            return ("boolop", "And", tuple(parts))
        if isinstance(e, (ast.Tuple, ast.List)):
            # `(*xs, a)` with a statically known xs is the spliced display
            elems = []
            for x in e.elts:
                v = self.snap(self.ev(x, env, ctx))
                if isinstance(v, tuple) and v and v[0] == "star" and isinstance(v[1], tuple) and v[1] and v[1][0] in ("tuple", "list") \
                        and not any(isinstance(y, tuple) and y and y[0] == "star" for y in v[1][1]):
                    elems.extend(v[1][1])
                else:
                    elems.append(v)
            return ("tuple" if isinstance(e, ast.Tuple) else "list", tuple(elems))
        if isinstance(e, ast.Set):
            return ("set", tuple(self.ev(x, env, ctx) for x in e.elts))
        if isinstance(e, ast.Dict):
            items = []
            for k, v in zip(e.keys, e.values):
                if k is None:
                    items.append((("const", "**"), self.ev(v, env, ctx)))
                else:
                    items.append((self.ev(k, env, ctx), self.snap(self.ev(v, env, ctx))))
            return ("dict", tuple(items))
        if isinstance(e, ast.Subscript):
            base = self.ev(e.value, env, ctx)
            idx = self.ev_slice(e.slice, env, ctx)
            return self.subscript(base, idx)
        if isinstance(e, ast.Lambda):
            return Closure(e, env, ctx)
        if isinstance(e, ast.Call):
            return self.call(e, env, ctx)
        if isinstance(e, ast.IfExp):
            t_ = self.ev(e.test, env, ctx)
            if self.fold(t_) is None and any(isinstance(x, tuple) and x and x[0] == "bound" for x in walk(t_)):
                # the test reads a comprehension / loop variable: it differs from element to element, so it is a selection inside the
                # element expression, not a static case of the enclosing function
                return self.mk_ite(t_, self.ev(e.body, env, ctx), self.ev(e.orelse, env, ctx))
            if self.decide(t_, e):
                return self.ev(e.body, env, ctx)
            return self.ev(e.orelse, env, ctx)
        if isinstance(e, ast.JoinedStr):
            # an f-string is the ordered sequence of its literal pieces and formatted values (messages of raise / assert never get here)
            try:
                parts = tuple(self.ev(v, env, ctx) for v in e.values)
            except AnalysisError:
                return ("const", "<fstring>")
            if all(p_[0] == "const" and isinstance(p_[1], str) for p_ in parts):
                return ("const", "".join(p_[1] for p_ in parts))
            return ("call", ("global", "<fstring>"), parts, ())
        if isinstance(e, ast.FormattedValue):
            v = self.ev(e.value, env, ctx)
            if e.conversion == -1 and e.format_spec is None:
                return ("call", ("global", "<format>"), (v,), ())
            spec = self.ev(e.format_spec, env, ctx) if e.format_spec is not None else NONE
            return ("call", ("global", "<format>"), (v, ("const", e.conversion), spec), ())
        if isinstance(e, ast.Starred):
            v = self.ev(e.value, env, ctx)
            nt = self.namedtuple_fields(v)
            return ("star", ("tuple", nt) if nt is not None else v)
        if isinstance(e, (ast.ListComp, ast.GeneratorExp, ast.SetComp, ast.DictComp)):
            return self.comp(e, env, ctx)
        if isinstance(e, ast.Slice):
            return self.ev_slice(e, env, ctx)
        if isinstance(e, ast.NamedExpr):
            v = self.ev(e.value, env, ctx)
            env[e.target.id] = v
            return v
        if isinstance(e, ast.Await) or isinstance(e, ast.Yield) or isinstance(e, ast.YieldFrom):
            raise Unsupported(type(e).__name__)
        raise Unsupported(f"expression {type(e).__name__} at line {getattr(e, 'lineno', '?')}")

    def ev_slice(self, s, env, ctx):
        if isinstance(s, ast.Slice):
            return ("slice",) + tuple(self.ev(x, env, ctx) if x is not None else NONE for x in (s.lower, s.upper, s.step))
        if isinstance(s, ast.Tuple):
            return ("tuple", tuple(self.ev_slice(x, env, ctx) for x in s.elts))
        return self.ev(s, env, ctx)

    def subscript(self, base, idx):
        if isinstance(base, tuple) and base[0] in ("tuple", "list") and idx[0] == "const" and isinstance(idx[1], int):
            if not any(isinstance(x, tuple) and x and x[0] == "star" for x in base[1]):
                try:
                    return base[1][idx[1]]
                except IndexError:
                    pass
        if isinstance(base, tuple) and base[0] == "dict" and idx[0] == "const":
            for k, v in base[1]:
                if k == idx:
                    return v
        if isinstance(base, tuple) and base[0] == "record" and idx[0] == "const" and isinstance(idx[1], int):
            # NamedTuple-style positional access
            if idx[1] < len(base[2]):
                return base[2][idx[1]][1]
        if idx[0] == "const" and isinstance(idx[1], int) and not isinstance(idx[1], bool) and idx[1] >= 0 and isinstance(base, tuple):
            return self.item(base, idx[1])  # x[i] and the i-th element of an unpacking are one node kind
        return ("sub", base, idx)

    def comp(self, e, env, ctx):
        kind = type(e).__name__
        gens = e.generators
        # try static unrolling for a single generator over a known iterable
        if len(gens) == 1 and kind in ("ListComp", "GeneratorExp"):
            it = self.ev(gens[0].iter, env, ctx)
            elems = self.static_elems(it)
            if elems is not None and len(elems) <= 128:
                out = []
                for x in elems:
                    sub = dict(env)
                    self.bind(gens[0].target, x, sub, ctx)
                    # a filter is honoured when it is decided statically for every element (isinstance of a known class, a constant test)
                    tests = [self.ev(c, sub, ctx) for c in gens[0].ifs]
                    keep = [self.fold(t_) for t_ in tests]
                    if any(k is None for k in keep):
                        if len(elems) > 8 or any(isinstance(x, tuple) and x and x[0] == "bound" for t_ in tests for x in walk(t_)):
                            out = None
                            break
                        # a filter on a concrete element that is not decided statically is a case of the enclosing function, exactly like
                        # the conditional expression `x if flag else nothing` it abbreviates
                        keep = [k if k is not None else self.decide(t_, gens[0]) for k, t_ in zip(keep, tests)]
                    if all(keep):
                        out.append(self.snap(self.ev(e.elt, sub, ctx)))
                if out is not None:
                    return ("list", tuple(out))
        sub = dict(env)
        gnodes = []
        self.bound_depth += 1
        d = self.bound_depth
        try:
            for gi, g in enumerate(gens):
                it = self.ev(g.iter, sub, ctx)
                self.bind_bound(g.target, d, [gi * 8], sub, ctx, self.iter_shape(it))
                conds = tuple(self.ev(c, sub, ctx) for c in g.ifs)
                gnodes.append((it, conds))
            if isinstance(e, ast.DictComp):
                elt = ("tuple", (self.ev(e.key, sub, ctx), self.ev(e.value, sub, ctx)))
            else:
                elt = self.ev(e.elt, sub, ctx)
        finally:
            self.bound_depth -= 1
        return ("comp", kind, elt, tuple(gnodes), d)

    @staticmethod
    def iter_shape(it):
        """Structure of one element of an iterable as far as the syntax shows it: zip(a, b) yields pairs, enumerate(a) (index, element),
        d.items() (key, value); anything else an opaque element (None). Bound variables are numbered in the flattened order of this
        structure, which is the order `rules.util.elementwise` assigns its slots in."""
        if isinstance(it, tuple) and it and it[0] == "call" and not it[3]:
            if it[1] == ("global", "zip") and it[2] and not any(isinstance(a, tuple) and a and a[0] == "star" for a in it[2]):
                return tuple(Builder.iter_shape(a) for a in it[2])
            if it[1] == ("global", "enumerate") and len(it[2]) == 1:
                return (None, Builder.iter_shape(it[2][0]))
            if isinstance(it[1], tuple) and it[1][0] == "attr" and it[1][2] == "items" and not it[2]:
                return (None, None)
        return None

    def bind_bound(self, t, d, counter, env, ctx, shape=None):
        def build(sh):
            if sh is None:
                n = ("bound", d, counter[0])
                counter[0] += 1
                return n
            return ("tuple", tuple(build(x) for x in sh))

        if isinstance(t, ast.Name):
            # a single name bound to a structured element (for pair in zip(a, b)) is the tuple of the element's parts
            env[t.id] = build(shape)
        elif isinstance(t, (ast.Tuple, ast.List)):
            sub = shape if isinstance(shape, tuple) and len(shape) == len(t.elts) and not any(isinstance(x, ast.Starred) for x in t.elts) else None
            for i, x in enumerate(t.elts):
                self.bind_bound(x, d, counter, env, ctx, sub[i] if sub is not None else None)
        elif isinstance(t, ast.Starred):
            self.bind_bound(t.value, d, counter, env, ctx)
        else:
            raise Unsupported("comprehension target")

    # ------------------------------------------------------------------ attributes
    def attr(self, base, name, ctx):
        if isinstance(base, SelfObj):
            if name in base.attrs:
                return base.attrs[name]
            r = self.prog.resolve_attr(base.cls, name)
            if r is not None and r[0] == "method":
                if r[1].is_property(name):
                    return self.maybe_inline_property(base, base.cls, r[1], r[2], name, ctx)
                return self.func_ref(r[1], r[2], base, dyn_cls=base.cls)
            return ("attr", ("const", f"<self:{base.cls.name}>"), name)
        if isinstance(base, tuple):
            k = base[0]
            if k == "global":
                q = self.prog.canonical(base[1] + "." + name)
                # class attribute access through a lerax class object
                if base[1] in self.prog.classes:
                    ci = self.prog.classes[base[1]]
                    r = self.prog.resolve_attr(ci, name)
                    if r is not None and r[0] == "method":
                        return self.func_ref(r[1], r[2], None)
                    if r is not None and r[0] == "assign":
                        return self.class_assign(r[1], name, r[2])
                    return ("attr", base, name)
                return self.global_node(q)
            if k == "record":
                for f, v in base[2]:
                    if f == name:
                        return v
                ci = self.prog.classes.get(base[1])
                if ci is not None:
                    r = self.prog.resolve_attr(ci, name)
                    if r is not None and r[0] == "method":
                        if r[1].is_property(name):
                            return self.maybe_inline_property(base, ci, r[1], r[2], name, ctx)
                        return self.func_ref(r[1], r[2], base, dyn_cls=ci)
                return ("attr", base, name)
            if k == "while" and self.namedtuple_fields(base[3]) is not None:
                # the result of a while loop has the type of its initial carry: a field of a NamedTuple carry is its positional element
                order = [f.name for f in self.prog.dataclass_fields(self.prog.classes[base[3][1]])]
                if name in order:
                    return self.item(base, order.index(name))
            if k == "update" and not self._is_method_name(base, name):
                for path, v in base[2]:
                    if path == (name,):
                        return v
                deeper = tuple((p[1:], v) for p, v in base[2] if p[0] == name and len(p) > 1)
                inner = self.attr(base[1], name, ctx)
                if deeper:
                    return ("update", inner, deeper)
                return inner
            if k == "ite":
                pass
            if k == "super":
                ci = self.prog.classes[base[1]]
                dyn = self.prog.classes[base[2]]
                r = self.prog.resolve_method(dyn, name, after=ci)
                if r is None:
                    return ("attr", base, name)
                return self.func_ref(r[0], r[1], ("param", base[3]), dyn_cls=dyn)
            if k == "param" and base[1] == getattr(self, "cur_self_param", None):
                if name in self.self_attrs:
                    return self.self_attrs[name]
            ci = self.type_of(base)
            if ci is not None:
                r = self.prog.resolve_attr(ci, name)
                if r is not None:
                    kind, dc, obj = r
                    if kind == "method":
                        if dc.is_property(name):
                            return self.maybe_inline_property(base, ci, dc, obj, name, ctx)
                        if dc.is_abstractmethod(name) or self.overridden_below(ci, name, dc):
                            return ("attr", base, name)  # polymorphic: stays an uninterpreted method
                        if dc.is_static(name):
                            return self.func_ref(dc, obj, None, dyn_cls=ci)
                        return self.func_ref(dc, obj, base, dyn_cls=ci)
                    if kind == "assign":
                        v = self.class_assign(dc, name, obj)
                        if isinstance(v, Closure) or (isinstance(v, tuple) and v[0] in ("gradfn", "const")):
                            return v
                        return ("attr", base, name)
        return ("attr", base, name)

    def _is_method_name(self, base, name) -> bool:
        ci = self.type_of(base)
        if ci is None:
            return False
        r = self.prog.resolve_attr(ci, name)
        return r is not None and r[0] in ("method", "assign")

    def maybe_inline_property(self, base, ci, dc, fn, name, ctx):
        overridden = self.overridden_below(ci, name, dc)
        if not overridden and not dc.is_abstractmethod(name) and self.inline("property", name, dc) and self.depth < self.max_depth:
            clo = Closure(fn, {}, Ctx(dc.module, dc, fn, ci), name, bound_self=base, qualname=f"{dc.qualname}.{name}")
            return self.apply(clo, (), ())
        return ("attr", base, name)

    def overridden_below(self, ci: ClassInfo, name: str, dc: ClassInfo) -> bool:
        """Does a strict subclass of ci redefine `name` (then the call is polymorphic)?"""
        for sub in self.prog.subclasses(ci):
            if name in sub.methods or name in sub.assigns or (name in sub.fields and not sub.fields[name].abstract):
                return True
        return False

    def class_assign(self, dc: ClassInfo, name: str, expr: ast.expr):
        """Value of a class-level binding such as `x_grad = staticmethod(filter_value_and_grad(x))`."""
        env = {}
        for n, fn in dc.methods.items():
            env[n] = Closure(fn, {}, Ctx(dc.module, dc, fn, dc), n, qualname=f"{dc.qualname}.{n}")
            env[n].snapped = True
        if self.depth >= self.max_depth:
            return ("attr", ("global", dc.qualname), name)
        self.depth += 1
        try:
            return self.ev(expr, env, Ctx(dc.module, dc, None, dc))
        finally:
            self.depth -= 1

    def func_ref(self, dc: ClassInfo, fn: ast.FunctionDef, receiver, dyn_cls=None, **kw):
        q = f"{dc.qualname}.{fn.name}"
        bound = receiver
        if dc.is_static(fn.name):
            bound = None
        c = Closure(fn, {}, Ctx(dc.module, dc, fn, dyn_cls or dc), fn.name, bound_self=bound, qualname=q)
        c.snapped = True
        return c

    def type_of(self, n) -> ClassInfo | None:
        if isinstance(n, SelfObj):
            return n.cls
        if not isinstance(n, tuple):
            return None
        if n in self.ntype:
            return self.ntype[n]
        k = n[0]
        r = None
        if k == "record":
            r = self.prog.classes.get(n[1])
        elif k == "update":
            r = self.type_of(n[1])
        elif k == "attr":
            bt = self.type_of(n[1])
            if bt is not None:
                a = self.prog.resolve_attr(bt, n[2])
                if a is not None and a[0] == "field":
                    r = self.prog.annotation_class(a[1].module, a[2].annotation, a[1])
                elif a is not None and a[0] == "method" and a[1].is_property(n[2]):
                    r = self.prog.annotation_class(a[1].module, a[2].returns, bt, a[2])
        elif k == "ite":
            r = self.type_of(n[2]) or self.type_of(n[3])
        elif k == "item" and isinstance(n[1], tuple) and n[1] and n[1][0] == "scan" and n[2] == 0:
            r = self.type_of(n[1][2])  # final carry has the type of the initial carry
        if r is not None:
            self.ntype[n] = r
        return r

    # ------------------------------------------------------------------ calls
    def call(self, e: ast.Call, env, ctx):
        # super() handling
        if isinstance(e.func, ast.Name) and e.func.id == "super" and not e.args and "super" not in env:
            if ctx.cls is None:
                raise Unsupported("super() outside class")
            dyn = ctx.self_cls or ctx.cls
            return ("super", ctx.cls.qualname, dyn.qualname, self.cur_self_name(ctx))
        f = self.ev(e.func, env, ctx)
        args = []
        for a in e.args:
            v = self.snap(self.ev(a, env, ctx))
            if isinstance(v, tuple) and v[0] == "star" and isinstance(v[1], tuple) and v[1][0] in ("tuple", "list"):
                args.extend(v[1][1])
            else:
                args.append(v)
        kwargs = []
        for k in e.keywords:
            v = self.snap(self.ev(k.value, env, ctx))
            if k.arg is None:
                if isinstance(v, tuple) and v[0] == "dict" and all(kk[0] == "const" for kk, _ in v[1]):
                    kwargs.extend((kk[1], vv) for kk, vv in v[1])
                else:
                    kwargs.append((None, v))
            else:
                kwargs.append((k.arg, v))
        return self.mk_call(f, tuple(args), tuple(kwargs), ctx, lineno=getattr(e, "lineno", 0))

    def cur_self_name(self, ctx):
        fn = ctx.fn
        if isinstance(fn, ast.FunctionDef):
            a = fn.args.posonlyargs + fn.args.args
            if a:
                return a[0].arg
        return "self"

    def mk_call(self, f, args: tuple, kwargs: tuple, ctx=None, lineno=0):
        kw = dict((k, v) for k, v in kwargs if k is not None)
        # mutation of local containers
        if isinstance(f, tuple) and f[0] == "attr" and f[2] in ("append", "extend") and isinstance(f[1], tuple) and f[1][0] == "list":
            return ("listmut", f[2], f[1], args)
        if isinstance(f, Closure):
            return self.call_closure(f, args, kwargs, lineno)
        if isinstance(f, tuple) and f[0] == "call" and f[1] == ("global", "functools.wraps") and len(args) == 1 and not kwargs:
            return args[0]
        if isinstance(f, tuple):
            k = f[0]
            if k == "global":
                q = f[1]
                if q.startswith("lerax.") and (q in COND or q in SCAN):
                    self.lowered_idioms.add(q)
                if q in ("jax.tree.map", "jax.tree_util.tree_map", "jax.debug.callback", "jax.experimental.io_callback") and args:
                    args = (self.fnval(args[0]),) + tuple(args[1:])
                if q in COND and len(args) >= 3:
                    ops = args[3:]
                    okw = tuple((a, b) for a, b in kwargs)
                    t = self.apply_any(args[1], ops, okw if q == "lerax.utils.filter_cond" else ())
                    fl = self.apply_any(args[2], ops, okw if q == "lerax.utils.filter_cond" else ())
                    return self.mk_ite(args[0], t, fl)
                if q in SELECT and len(args) == 3 and not kwargs:
                    return self.mk_ite(args[0], args[1], args[2])
                if q == "jax.numpy.select" and len(args) >= 2:
                    # select(conds, choices, default): the first condition that holds selects
                    cs, vs = self.static_elems(args[0]), self.static_elems(args[1])
                    dflt = args[2] if len(args) > 2 else kw.get("default", ("const", 0))
                    if cs is not None and vs is not None and len(cs) == len(vs) and not (set(kw) - {"default"}):
                        out = dflt
                        for c_, v_ in reversed(list(zip(cs, vs))):
                            out = self.mk_ite(c_, v_, out)
                        return out
                if q in SCAN:
                    names = ["f", "init", "xs", "length", "reverse"]
                    b = dict(zip(names, args))
                    b.update(kw)
                    return ("scan", self.fnval(b.get("f")), b.get("init", NONE), b.get("xs", NONE), b.get("length", NONE), b.get("reverse", FALSE))
                if q in WHILE and len(args) == 3:
                    return ("while", self.fnval(args[0]), self.fnval(args[1]), args[2])
                if q in ("operator.attrgetter", "operator.itemgetter") and args and not kwargs:
                    # attrgetter("a", "b.c") is `lambda o: (o.a, o.b.c)` (a bare value for one name); itemgetter likewise with o[k]
                    names = []
                    for a_ in args:
                        if isinstance(a_, tuple) and a_ and a_[0] == "star":
                            sub = self.static_elems(a_[1])
                            names = None if sub is None or names is None else names + list(sub)
                        elif names is not None:
                            names.append(a_)
                    if names is not None and all(isinstance(x, tuple) and x[0] == "const" and (isinstance(x[1], str) if q.endswith("attrgetter") else isinstance(x[1], (str, int)))
                                                 and not isinstance(x[1], bool) for x in names):
                        if q.endswith("attrgetter") and all(all(part.isidentifier() for part in x[1].split(".")) for x in names):
                            parts = [f"__o.{x[1]}" for x in names]
                        elif q.endswith("itemgetter"):
                            parts = [f"__o[{x[1]!r}]" for x in names]
                        else:
                            parts = None
                        if parts:
                            src = "lambda __o: " + (parts[0] if len(parts) == 1 else "(" + ", ".join(parts) + ")")
                            c_ = Closure(ast.parse(src, mode="eval").body, {}, Ctx(list(self.prog.modules.values())[0], None, None), "<getter>")
                            c_.snapped = True
                            return c_
                if q in TREE_AT:
                    r = self.tree_at(args, kw)
                    if r is not None:
                        return r
                if q in GRAD and args:
                    return ("gradfn", self.fnval(args[0]), kw.get("has_aux", FALSE))
                if q in VMAP and args:
                    return ("vmapfn", self.fnval(args[0]), tuple(sorted(kwargs, key=lambda x: str(x[0]))) + tuple(("#%d" % i, a) for i, a in enumerate(args[1:], 1)))
                if q in IDENT_WRAP and len(args) == 1 and not kwargs:
                    return args[0]
                if q in PARTIAL and args:
                    return ("partial", args[0], args[1:], kwargs)
                if q == "next" and args and not kwargs and isinstance(args[0], tuple) and args[0] and args[0][0] in ("list", "tuple") and not any(
                        isinstance(x, tuple) and x and x[0] == "star" for x in args[0][1]) and (args[0][1] or len(args) == 2):
                    # next(...) of a statically known sequence (an unrolled generator): its first element, or the default
                    return args[0][1][0] if args[0][1] else args[1]
                if q == "type" and len(args) == 1 and not kwargs:
                    # type(x) of a value whose class is known (self, an annotated parameter, a constructed record) is that class object:
                    # `type(self)(**fields)` is a construction
                    tci = self.type_of(args[0])
                    if tci is not None:
                        return ("global", tci.qualname)
                if q == "map" and len(args) >= 2 and not kwargs:
                    # map(f, xs, ys, ...) over statically known sequences is the sequence of the element-wise applications
                    cols = [self.static_elems(a_) for a_ in args[1:]]
                    fn_ = self.fnval(args[0])
                    if all(c_ is not None for c_ in cols) and (isinstance(fn_, Closure) or (isinstance(fn_, tuple) and fn_ and fn_[0] in ("global", "attr", "partial"))):
                        n_ = min(len(c_) for c_ in cols)
                        return ("list", tuple(self.snap(self.apply_any(fn_, tuple(c_[i] for c_ in cols))) for i in range(n_)))
                    recursive_ = isinstance(fn_, Closure) and any(fn_.node is n_ for n_ in self.__dict__.get("_apply_stack", [])) or (
                        isinstance(fn_, Closure) and ctx is not None and fn_.node is getattr(ctx, "fn", None))
                    if not recursive_ and (isinstance(fn_, Closure) or (isinstance(fn_, tuple) and fn_ and fn_[0] == "partial")):
                        # over sequences of unknown length, map(f, xs, ys) is the generator (f(x, y) for x, y in zip(xs, ys)); a function
                        # that maps ITSELF over its argument's parts (a recursive converter) stays a call
                        self.bound_depth += 1
                        d_ = self.bound_depth
                        elt_ = None
                        snap_dec, snap_tr = dict(self.decisions), list(self.trace)
                        try:
                            elt_ = self.snap(self.apply_any(fn_, tuple(("bound", d_, i_) for i_ in range(len(args) - 1))))
                        except Unsupported:
                            # a function that maps itself over its argument's parts (a recursive converter) stays a call; the case
                            # decisions taken while trying are forgotten
                            elt_ = None
                            self.decisions.clear()
                            self.decisions.update(snap_dec)
                            self.trace[:] = snap_tr
                        finally:
                            self.bound_depth -= 1
                        if elt_ is not None:
                            it_ = args[1] if len(args) == 2 else ("call", ("global", "zip"), tuple(args[1:]), ())
                            return ("comp", "GeneratorExp", elt_, ((it_, ()),), d_)
                if q == "isinstance" and len(args) == 2:
                    n = ("call", f, args, kwargs)
                    fo = self.fold(n)
                    if fo is not None:
                        return TRUE if fo else FALSE
                    return n
                if q in ("tuple", "list") and len(args) == 1 and not kwargs and isinstance(args[0], tuple) and args[0][0] in ("tuple", "list"):
                    return (q, args[0][1])
                if q in ("tuple", "list") and len(args) == 1 and not kwargs and isinstance(args[0], tuple) and args[0] and (
                        args[0][0] in ("dict", "setitem") or (args[0][0] == "call" and isinstance(args[0][1], tuple) and args[0][1][0] == "attr" and args[0][1][2] in ("items", "keys", "values"))):
                    el = self.static_elems(args[0])
                    if el is not None:
                        return (q, tuple(el))
                if q == "len" and len(args) == 1 and isinstance(args[0], tuple) and args[0][0] in ("tuple", "list") and not any(
                    isinstance(x, tuple) and x and x[0] == "star" for x in args[0][1]
                ):
                    return ("const", len(args[0][1]))
                if q == "getattr" and len(args) >= 2 and args[1][0] == "const" and isinstance(args[1][1], str):
                    return self.attr(args[0], args[1][1], ctx)
                if q in self.prog.classes:
                    return self.construct(self.prog.classes[q], args, kwargs, lineno)
                mod, _, fname = q.rpartition(".")
                mm = self.prog.modules.get(mod)
                if mm is not None and fname in mm.functions:
                    self.resolved_calls += 1
                    if self.inline("function", q, None) and self.depth < self.max_depth:
                        clo = Closure(mm.functions[fname], {}, Ctx(mm, None, mm.functions[fname]), fname, qualname=q)
                        return self.apply(clo, args, kwargs)
                    return ("call", f, args, kwargs)
            if k == "partial":
                return self.mk_call(f[1], f[2] + args, f[3] + kwargs, ctx, lineno)
            if k == "ite" and False:
                pass
        if isinstance(f, tuple) and f[0] == "attr":
            self.unresolved_calls += 1
        return ("call", f, args, kwargs)

    def fnval(self, f, depth=0):
        """Normal form of a function value handed to scan / vmap / grad / tree.map / while: a module-level function of the package and
        a functools.partial of a function become closures, so that rules (and the normaliser) treat `scan(body, ...)` alike whether
        `body` is a nested def, a lambda, a module-level helper or a partial application. Methods keep their own representation."""
        if isinstance(f, Closure) or depth > 3:
            return f
        if isinstance(f, tuple) and f and f[0] == "global":
            mod, _, fname = f[1].rpartition(".")
            mm = self.prog.modules.get(mod)
            if mm is not None and fname in mm.functions and mod.startswith(self.prog.package):
                return Closure(mm.functions[fname], {}, Ctx(mm, None, mm.functions[fname]), fname, qualname=None)
            return f
        if isinstance(f, tuple) and f and f[0] == "partial":
            inner = self.fnval(f[1], depth + 1)
            if not isinstance(inner, Closure) and not (isinstance(inner, tuple) and inner and inner[0] in ("attr", "global")):
                return f
            kwnames = [k for k, v in f[3] if k is not None]
            if len(kwnames) != len(f[3]):
                return f
            src = "lambda *__a, **__k: __f(" + ", ".join([f"__b{i}" for i in range(len(f[2]))] + ["*__a"] + [f"{k}=__kw_{k}" for k in kwnames] + ["**__k"]) + ")"
            if isinstance(inner, Closure) and inner.args.vararg is None and inner.args.kwarg is None and not any(isinstance(x, tuple) and x and x[0] == "star" for x in f[2]):
                # the remaining parameters are spelled out (those the partial leaves open, none of which has a default), so that the
                # partial application has the same arity, parameter names and normal form as the nested def / lambda it replaces
                a_ = inner.args
                pos = [x.arg for x in a_.posonlyargs + a_.args]
                if inner.bound_self is not None and pos:
                    pos = pos[1:]
                ndef = len(a_.defaults)
                has_default = set(pos[len(pos) - ndef:] if ndef else []) | {x.arg for x, d_ in zip(a_.kwonlyargs, a_.kw_defaults) if d_ is not None}
                rest = [nm for nm in pos[len(f[2]):] if nm not in kwnames]
                kwrest = [x.arg for x in a_.kwonlyargs if x.arg not in kwnames]
                if len(f[2]) <= len(pos) and not (set(rest + kwrest) & has_default) and not any(nm.startswith("__") for nm in rest + kwrest):
                    src = "lambda " + ", ".join(rest + (["*"] + kwrest if kwrest else [])) + ": __f(" + ", ".join(
                        [f"__b{i}" for i in range(len(f[2]))] + rest + [f"{k}=__kw_{k}" for k in kwnames] + [f"{k}={k}" for k in kwrest]) + ")"
            lam = ast.parse(src, mode="eval").body
            env = {"__f": inner}
            for i, v in enumerate(f[2]):
                env[f"__b{i}"] = v
            for k, v in f[3]:
                env[f"__kw_{k}"] = v
            mods = list(self.prog.modules.values())
            c = Closure(lam, env, Ctx(mods[0], None, None), "<partial>")
            c.snapped = True
            return c
        return f

    def call_closure(self, f: Closure, args, kwargs, lineno=0):
        """Call of a function value: inline locals always; methods/functions per policy."""
        self.resolved_calls += 1
        if f.qualname is None:
            return self.apply(f, args, kwargs)
        dc = f.ctx.cls
        name = f.name
        if dc is not None:
            dyn = f.ctx.self_cls or dc
            if dc.is_abstractmethod(name) or self.overridden_below(dyn, name, dc):
                recv = f.bound_self
                if recv is not None:
                    return ("call", ("attr", recv, name), args, kwargs)
                return ("call", ("global", f.qualname), args, kwargs)
            if dc.is_classmethod(name) and f.bound_self is None:
                # Class.method(...) on a classmethod: bind cls to the class object
                f = Closure(f.node, f.env, f.ctx, f.name, ("global", dyn.qualname), f.qualname)
                f.snapped = True
            if self.inline("method", f.qualname, dc) and self.depth < self.max_depth:
                return self.apply(f, args, kwargs)
            if f.bound_self is not None:
                node = ("call", ("attr", f.bound_self, name), args, kwargs)
            else:
                node = ("call", ("global", f.qualname), args, kwargs)
            rt = self.prog.annotation_class(dc.module, getattr(f.node, "returns", None), dyn, f.node)
            if rt is not None:
                try:
                    self.ntype.setdefault(node, rt)
                except TypeError:
                    pass
            return node
        if self.inline("function", f.qualname, None) and self.depth < self.max_depth:
            return self.apply(f, args, kwargs)
        return ("call", ("global", f.qualname), args, kwargs)

    def apply_any(self, f, args=(), kwargs=()):
        """Apply a function-valued node (used by lowering of cond etc.)."""
        if isinstance(f, Closure):
            if f.qualname is None:
                return self.apply(f, tuple(args), tuple(kwargs))
            return self.call_closure(f, tuple(args), tuple(kwargs))
        return self.mk_call(f, tuple(args), tuple(kwargs))

    def apply(self, clo: Closure, args: tuple, kwargs: tuple):
        """Inline a closure on argument nodes (beta-reduction)."""
        if self.depth >= self.max_depth + 6:
            raise Unsupported(f"inlining depth exceeded at {clo}")
        node = clo.node
        a = node.args
        env = dict(clo.env) if clo.env else {}
        pos = list(a.posonlyargs + a.args)
        actual = list(args)
        if clo.bound_self is not None:
            actual = [clo.bound_self] + actual
        # expand star args that are static
        flat = []
        tail_star = None  # a trailing *xs of unknown length handed on to the callee's own *args
        for xi, x in enumerate(actual):
            if isinstance(x, tuple) and x and x[0] == "star":
                el = self.static_elems(x[1])
                if el is None:
                    if xi == len(actual) - 1 and a.vararg is not None and len(flat) >= len(pos):
                        tail_star = x[1]
                        continue
                    # cannot map positionally: fall back to uninterpreted
                    return ("call", clo, tuple(args), tuple(kwargs))
                flat.extend(el)
            else:
                flat.append(x)
        actual = flat
        kw = {}
        extra_kw = []
        tail_kw = None  # a **mapping of unknown keys handed on to the callee's own **kwargs
        for k, v in kwargs:
            if k is None:
                named = {k2 for k2, _ in kwargs if k2 is not None}
                filled = all(i < len(actual) or p_.arg in named for i, p_ in enumerate(pos)) and all(p_.arg in named for p_ in a.kwonlyargs)
                if tail_kw is None and a.kwarg is not None and filled:
                    tail_kw = v
                    continue
                return ("call", clo, tuple(args), tuple(kwargs))
            kw[k] = v
        defaults = list(a.defaults)
        ndef = len(defaults)
        dctx = clo.ctx
        for i, p in enumerate(pos):
            if i < len(actual):
                env[p.arg] = actual[i]
            elif p.arg in kw:
                env[p.arg] = kw.pop(p.arg)
            else:
                di = i - (len(pos) - ndef)
                if di >= 0:
                    env[p.arg] = self.ev(defaults[di], dict(clo.env) if clo.env else {}, dctx)
                else:
                    env[p.arg] = ("missing", p.arg)
        rest = actual[len(pos):]
        if a.vararg:
            if tail_star is not None:
                env[a.vararg.arg] = tail_star if not rest else ("tuple", tuple(rest) + (("star", tail_star),))
            else:
                env[a.vararg.arg] = ("tuple", tuple(rest))
        elif rest:
            return ("call", clo, tuple(args), tuple(kwargs))
        for p, d in zip(a.kwonlyargs, a.kw_defaults):
            if p.arg in kw:
                env[p.arg] = kw.pop(p.arg)
            elif d is not None:
                env[p.arg] = self.ev(d, dict(clo.env) if clo.env else {}, dctx)
            else:
                env[p.arg] = ("missing", p.arg)
        if a.kwarg:
            if tail_kw is not None:
                env[a.kwarg.arg] = tail_kw if not kw else ("dict", tuple((("const", k), v) for k, v in kw.items()) + ((("const", "**"), tail_kw),))
            else:
                env[a.kwarg.arg] = ("dict", tuple((("const", k), v) for k, v in kw.items()))
        elif kw:
            return ("call", clo, tuple(args), tuple(kwargs))
        # types of parameters from annotations (unless the argument's own type is known)
        for p in pos + list(a.kwonlyargs):
            v = env[p.arg]
            if isinstance(v, tuple) and self.type_of(v) is None and getattr(p, "annotation", None) is not None:
                ci = self.prog.annotation_class(dctx.module, p.annotation, dctx.cls, node if isinstance(node, ast.FunctionDef) else None)
                if ci is not None and v[0] not in ("const",):
                    try:
                        self.ntype[v] = ci
                    except TypeError:
                        pass
        if isinstance(node, ast.Lambda):
            self.depth += 1
            try:
                return self.ev(node.body, env, dctx)
            finally:
                self.depth -= 1
        save = (getattr(self, "cur_self_param", None),)
        self.depth += 1
        stack_ = self.__dict__.setdefault("_apply_stack", [])
        stack_.append(node)
        try:
            self.run(node.body, env, dctx)
            ret = NONE
        except _Return as r:
            ret = r.value
        finally:
            self.depth -= 1
            stack_.pop()
        return ret

    def construct(self, ci: ClassInfo, args, kwargs, lineno=0):
        """Constructor call of a lerax class -> Record node."""
        sig = self.prog.init_signature(ci)
        kw = dict((k, v) for k, v in kwargs if k is not None)
        if any(k is None for k, _ in kwargs) or any(isinstance(a, tuple) and a and a[0] == "star" for a in args):
            return ("call", ("global", ci.qualname), args, kwargs)
        if sig[0] == "dataclass":
            names = sig[1]
            fields = []
            if len(args) > len(names):
                return ("call", ("global", ci.qualname), args, kwargs)
            for n, v in zip(names, args):
                fields.append((n, v))
            given = {n for n, _ in fields}
            for n in names:
                if n in kw and n not in given:
                    fields.append((n, kw[n]))
                    given.add(n)
            # defaults for the remaining ones stay symbolic
            rec = ("record", ci.qualname, tuple(fields))
            return rec
        _, dc, init = sig
        if not self.construct_inline or self.depth >= self.max_depth or not self.inline("init", ci.qualname, dc):
            # map arguments to parameter names only
            pos = [p.arg for p in init.args.posonlyargs + init.args.args][1:]
            fields = [("arg:" + n, v) for n, v in zip(pos, args)] + [("arg:" + k, v) for k, v in kw.items()]
            return ("record", ci.qualname, tuple(fields))
        holder = SelfObj(ci)
        clo = Closure(init, {}, Ctx(dc.module, dc, init, ci), "__init__", bound_self=holder, qualname=f"{dc.qualname}.__init__")
        self.apply(clo, args, kwargs)
        rec = ("record", ci.qualname, tuple(sorted(holder.attrs.items(), key=lambda kv: kv[0])))
        return rec

    def tree_at(self, args, kw):
        names = ["where", "pytree", "replace"]
        b = dict(zip(names, args))
        b.update(kw)
        where, base = b.get("where"), b.get("pytree")
        if not isinstance(where, Closure) or base is None:
            return None
        sel = self.apply(where, (("sel",),), ())

        def path_of(n):
            p = []
            while isinstance(n, tuple) and n[0] == "attr":
                p.append(n[2])
                n = n[1]
            if n == ("sel",):
                return tuple(reversed(p))
            return None

        if "replace" in b:
            repl = b["replace"]
            if isinstance(sel, tuple) and sel[0] in ("tuple", "list"):
                paths = [path_of(x) for x in sel[1]]
                if any(p is None for p in paths):
                    return None
                vals = [self.item(repl, i) for i in range(len(paths))]
            else:
                p = path_of(sel)
                if p is None:
                    return None
                paths, vals = [p], [repl]
        elif "replace_fn" in b:
            fn = b["replace_fn"]
            sels = sel[1] if isinstance(sel, tuple) and sel[0] in ("tuple", "list") else [sel]
            paths = [path_of(x) for x in sels]
            if any(p is None for p in paths):
                return None
            vals = []
            for p in paths:
                cur = base
                for f in p:
                    cur = self.attr(cur, f, None)
                vals.append(self.apply_any(fn, (cur,)))
        else:
            return None
        return self.mk_update(base, list(zip(paths, vals)))

    def mk_update(self, base, items):
        if isinstance(base, tuple) and base[0] == "update":
            d = dict(base[2])
            for p, v in items:
                d[p] = v
            return ("update", base[1], tuple(sorted(d.items())))
        if isinstance(base, tuple) and base[0] == "record" and all(len(p) == 1 for p, _ in items):
            d = dict(base[2])
            for p, v in items:
                d[p[0]] = v
            return ("record", base[1], tuple(sorted(d.items())))
        return ("update", base, tuple(sorted(dict(items).items())))

    def mk_bin(self, op, a, b):
        """Binary operation node; the concatenation of two statically known sequences of one kind is folded (`fields += [...]`)."""
        if op == "Add" and isinstance(a, tuple) and isinstance(b, tuple) and a and b and a[0] == b[0] and a[0] in ("list", "tuple") \
                and not any(isinstance(x, tuple) and x and x[0] == "star" for x in a[1] + b[1]):
            return (a[0], a[1] + b[1])
        return ("bin", op, a, b)

    def mk_ite(self, p, a, b):
        if a == b:
            return a
        return ("ite", p, a, b)


# ---------------------------------------------------------------------------
def _load(t):
    t2 = ast.parse(ast.unparse(t), mode="eval").body
    return t2


def _assigned_names(body) -> set[str]:
    out = set()
    for s in body:
        for n in ast.walk(s):
            if isinstance(n, ast.Name) and isinstance(n.ctx, ast.Store):
                out.add(n.id)
    return out


def strip_not(t):
    return t


def _only_assigns(body) -> bool:
    for st in body:
        if isinstance(st, (ast.Assign, ast.AugAssign, ast.AnnAssign, ast.Pass)):
            if isinstance(st, ast.Assign) and not all(isinstance(t, ast.Name) for t in st.targets):
                return False
            continue
        if isinstance(st, ast.If) and _only_assigns(st.body) and _only_assigns(st.orelse):
            continue
        if isinstance(st, ast.Expr) and isinstance(st.value, ast.Constant):
            continue
        return False
    return True


def dkey(t, _depth=0):
    """Key of a test node for the decision table: function values are identified by their definition (a closure object is
    created afresh on every run of a path, so its identity must not take part in recognising 'the same test')."""
    if isinstance(t, Closure):
        return ("<closure>", id(t.node), t.qualname or t.name)
    if isinstance(t, SelfObj):
        return ("<selfobj>", id(t))
    if isinstance(t, tuple):
        if _depth > 200:
            return ("<deep>",)
        return tuple(dkey(x, _depth + 1) for x in t)
    try:
        hash(t)
        return t
    except TypeError:
        return repr(t)


def id_key(t):
    try:
        hash(t)
        return t
    except TypeError:
        return repr(t)


# ---------------------------------------------------------------------------
# post-processing of "listmut" effects: list.append on a local list rebinding.
# Python lists are mutable; the Builder models `x.append(v)` by rebinding every
# environment entry that holds the identical list node.
def _patch_listmut(builder_cls):
    orig_stmt = builder_cls.stmt

    def stmt(self, s, env, ctx):
        if isinstance(s, ast.Expr) and isinstance(s.value, ast.Call) and isinstance(s.value.func, ast.Attribute) \
                and s.value.func.attr in ("append", "extend") and isinstance(s.value.func.value, ast.Name):
            name = s.value.func.value.id
            cur = env.get(name)
            if isinstance(cur, tuple) and cur[0] == "list":
                vals = tuple(self.snap(self.ev(a, env, ctx)) for a in s.value.args)
                if s.value.func.attr == "append":
                    new = ("list", cur[1] + vals)
                else:
                    el = self.static_elems(vals[0]) if vals else []
                    if el is None:
                        raise Unsupported("extend with non-static iterable")
                    new = ("list", cur[1] + tuple(el))
                env[name] = new
                return
        return orig_stmt(self, s, env, ctx)

    builder_cls.stmt = stmt


_patch_listmut(Builder)


# ---------------------------------------------------------------------------
# generic graph utilities
def walk(n, seen=None, into_closures=False):
    """Yield every sub-node once (pre-order)."""
    if seen is None:
        seen = set()
    stack = [n]
    while stack:
        x = stack.pop()
        if isinstance(x, (Closure, SelfObj)):
            if id(x) in seen:
                continue
            seen.add(id(x))
            yield x
            continue
        if not isinstance(x, tuple):
            continue
        try:
            if x in seen:
                continue
            seen.add(x)
        except TypeError:
            if id(x) in seen:
                continue
            seen.add(id(x))
        yield x
        for c in x:
            if isinstance(c, (tuple, Closure)):
                stack.append(c)


def depends_on(n, targets) -> bool:
    ts = set(targets) if not isinstance(targets, set) else targets
    for x in walk(n):
        if not isinstance(x, Closure) and x in ts:
            return True
    return False


def find_calls(n, pred):
    out = []
    for x in walk(n):
        if isinstance(x, tuple) and x and x[0] == "call" and pred(x):
            out.append(x)
    return out


def callee_name(call) -> str | None:
    """Qualified/global name or attribute name of a call node's callee."""
    f = call[1]
    if isinstance(f, tuple):
        if f[0] == "global":
            return f[1]
        if f[0] == "attr":
            return f[2]
    if isinstance(f, Closure):
        return f.qualname or f.name
    return None


def show(n, depth=0, maxlen=400) -> str:
    s = _show(n, 0)
    return s if len(s) <= maxlen else s[: maxlen - 3] + "..."


def _show(n, d):
    if isinstance(n, Closure):
        return repr(n)
    if not isinstance(n, tuple):
        return repr(n)
    if d > 12:
        return "…"
    k = n[0] if n else None
    if k == "param":
        return n[1]
    if k == "const":
        return repr(n[1])
    if k == "global":
        return n[1].replace("jax.numpy.", "jnp.").replace("jax.random.", "jr.").replace("jax.lax.", "lax.")
    if k == "attr":
        return f"{_show(n[1], d+1)}.{n[2]}"
    if k == "sub":
        return f"{_show(n[1], d+1)}[{_show(n[2], d+1)}]"
    if k == "slice":
        return ":".join("" if x == NONE else _show(x, d + 1) for x in n[1:])
    if k == "call":
        a = [_show(x, d + 1) for x in n[2]] + [f"{kk}={_show(v, d+1)}" for kk, v in n[3]]
        return f"{_show(n[1], d+1)}({', '.join(a)})"
    if k == "item":
        return f"{_show(n[1], d+1)}#{n[2]}"
    if k == "bin":
        op = {"Add": "+", "Sub": "-", "Mult": "*", "Div": "/", "FloorDiv": "//", "Mod": "%", "Pow": "**",
              "BitAnd": "&", "BitOr": "|", "BitXor": "^", "MatMult": "@", "LShift": "<<", "RShift": ">>"}.get(n[1], n[1])
        return f"({_show(n[2], d+1)} {op} {_show(n[3], d+1)})"
    if k == "un":
        op = {"USub": "-", "Invert": "~", "Not": "not ", "UAdd": "+"}.get(n[1], n[1])
        return f"{op}{_show(n[2], d+1)}"
    if k == "cmp":
        op = {"Eq": "==", "NotEq": "!=", "Lt": "<", "LtE": "<=", "Gt": ">", "GtE": ">=", "Is": "is", "IsNot": "is not",
              "In": "in", "NotIn": "not in"}.get(n[1], n[1])
        return f"({_show(n[2], d+1)} {op} {_show(n[3], d+1)})"
    if k == "boolop":
        return "(" + (" and " if n[1] == "And" else " or ").join(_show(x, d + 1) for x in n[2]) + ")"
    if k in ("tuple", "list", "set"):
        o, c = {"tuple": "()", "list": "[]", "set": "{}"}[k]
        return o + ", ".join(_show(x, d + 1) for x in n[1]) + c
    if k == "dict":
        return "{" + ", ".join(f"{_show(a, d+1)}: {_show(b, d+1)}" for a, b in n[1]) + "}"
    if k == "ite":
        return f"ite({_show(n[1], d+1)}, {_show(n[2], d+1)}, {_show(n[3], d+1)})"
    if k == "record":
        return n[1].split(".")[-1] + "{" + ", ".join(f"{f}={_show(v, d+1)}" for f, v in n[2]) + "}"
    if k == "update":
        return f"{_show(n[1], d+1)}⟨" + ", ".join(f"{'.'.join(p)}:={_show(v, d+1)}" for p, v in n[2]) + "⟩"
    if k == "scan":
        return f"scan({_show(n[1], d+1)}, init={_show(n[2], d+1)}, xs={_show(n[3], d+1)}, length={_show(n[4], d+1)}, reverse={_show(n[5], d+1)})"
    return "(" + " ".join(_show(x, d + 1) if isinstance(x, (tuple, Closure)) else repr(x) for x in n) + ")"


def mapnodes(n, f, memo=None):
    """Bottom-up rewrite: f(node_with_rewritten_children) -> node. Closures are left untouched."""
    if memo is None:
        memo = {}
    if isinstance(n, (Closure, SelfObj)) or not isinstance(n, tuple):
        return n
    try:
        if n in memo:
            return memo[n]
        hashable = True
    except TypeError:
        hashable = False
    new = tuple(mapnodes(x, f, memo) if isinstance(x, tuple) else x for x in n)
    r = f(new)
    if hashable:
        memo[n] = r
    return r


KEY = ("const", "<key>")


def strip_keys(n):
    """Replace every `key=` keyword argument by a wildcard (key routing is decided by the provenance rules)."""

    def f(x):
        if x and x[0] == "call" and isinstance(x[3], tuple) and any(k == "key" for k, _ in x[3] if isinstance(k, str)):
            return ("call", x[1], x[2], tuple((k, KEY if k == "key" else v) for k, v in x[3]))
        return x

    return mapnodes(n, f)


def replace_nodes(n, mapping: dict):
    def f(x):
        return mapping.get(x, x)

    return mapnodes(n, f)
