"""Ambient-effect scanning and key provenance (DESIGN.md §2.5).

AST-level scans over the functions of chosen modules/classes with callee names
resolved through each module's own import aliases (so `import time as t; t.time()`
and `from time import time` are the same callee).
"""
from __future__ import annotations

import ast
import os
from dataclasses import dataclass

from .model import ClassInfo, ModuleInfo, Program

FORBIDDEN_PREFIXES = (
    "time.", "datetime.", "random.", "numpy.random.", "uuid.", "secrets.", "os.urandom", "os.environ", "os.getenv", "os.getpid",
    "threading.", "multiprocessing.", "socket.", "tempfile.",
)
FORBIDDEN_NAMES = {"id", "input", "open", "exec", "eval", "globals", "setattr", "delattr"}
# host round-trips whose result re-enters the traced computation (state outside the arguments)
HOST_CALLBACKS = {"jax.experimental.io_callback", "jax.pure_callback", "jax.experimental.host_callback.call"}
MEMO_DECORATORS = {"functools.lru_cache", "functools.cache", "functools.cached_property", "lru_cache", "cache", "cached_property"}
COLLECTIVES = {"psum", "pmean", "pmax", "pmin", "all_gather", "all_to_all", "ppermute", "axis_index", "pshuffle", "psum_scatter"}
KEY_CTORS = {"jax.random.key", "jax.random.PRNGKey", "jax.random.wrap_key_data"}


@dataclass
class Hit:
    kind: str
    what: str
    module: str
    func: str
    lineno: int

    def __str__(self):
        return f"{self.module}:{self.lineno} {self.func}: {self.kind} {self.what}"


def qualname_of(prog: Program, m: ModuleInfo, e: ast.expr, local: set[str]) -> str | None:
    parts = []
    while isinstance(e, ast.Attribute):
        parts.append(e.attr)
        e = e.value
    if not isinstance(e, ast.Name):
        return None
    if e.id in local:
        return None
    parts.reverse()
    q = prog.resolve_name(m, e.id, parts)
    if q is None:
        return ".".join([e.id] + parts)  # builtin root (object.__setattr__, setattr, id, ...)
    return q


def functions_of(prog: Program, module_filter=None, class_filter=None, method_filter=None):
    """Yield (module, class or None, qualified function name, FunctionDef) for top-level functions and methods."""
    for m in prog.modules.values():
        if module_filter is not None and not module_filter(m):
            continue
        for fn in m.functions.values():
            if class_filter is None:
                yield m, None, f"{m.name}.{fn.name}", fn
        for ci in m.classes.values():
            if class_filter is not None and not class_filter(ci):
                continue
            for name, fn in ci.methods.items():
                if method_filter is not None and not method_filter(ci, name):
                    continue
                yield m, ci, f"{ci.qualname}.{name}", fn


def local_names(fn: ast.FunctionDef) -> set[str]:
    out = set()
    for n in ast.walk(fn):
        if isinstance(n, ast.arg):
            out.add(n.arg)
        elif isinstance(n, ast.Name) and isinstance(n.ctx, ast.Store):
            out.add(n.id)
    return out


def scan_function(prog: Program, m: ModuleInfo, qual: str, fn: ast.FunctionDef, allow_self_assign: bool = False) -> list[Hit]:
    """Ambient effects of one function body (nested functions included)."""
    hits: list[Hit] = []
    local = local_names(fn)
    set_names = _set_names(fn)
    # function-local imports shadow nothing: resolve them like module imports
    local_imports = {}
    for n in ast.walk(fn):
        if isinstance(n, ast.Import):
            for a in n.names:
                local_imports[a.asname or a.name.split(".")[0]] = a.name if a.asname else a.name.split(".")[0]
        elif isinstance(n, ast.ImportFrom) and n.level == 0 and n.module:
            for a in n.names:
                local_imports[a.asname or a.name] = f"{n.module}.{a.name}"
    if local_imports:
        m = _with_imports(m, local_imports)
        local = local - set(local_imports)
    params = {a.arg for a in fn.args.posonlyargs + fn.args.args + fn.args.kwonlyargs}
    first = (fn.args.posonlyargs + fn.args.args)[0].arg if (fn.args.posonlyargs + fn.args.args) else None
    for sub in ast.walk(fn):
        if isinstance(sub, ast.FunctionDef):
            for d in sub.decorator_list:
                de = d.func if isinstance(d, ast.Call) else d
                q = qualname_of(prog, m, de, set())
                if q in MEMO_DECORATORS or (q or "").split(".")[-1] in ("lru_cache", "cached_property") or q == "functools.cache":
                    hits.append(Hit("memoization", q, m.relpath, qual, sub.lineno))
    for n in ast.walk(fn):
        if isinstance(n, ast.Call):
            q = qualname_of(prog, m, n.func, local - set(m.imports))
            if q is not None:
                if q in HOST_CALLBACKS:
                    hits.append(Hit("host-callback", q, m.relpath, qual, n.lineno))
                if any(q == p.rstrip(".") or q.startswith(p) for p in FORBIDDEN_PREFIXES) or q in FORBIDDEN_NAMES:
                    hits.append(Hit("forbidden-callee", q, m.relpath, qual, n.lineno))
                if q == "hash" and fn.name != "__hash__":
                    # hash() of str / bytes (and of anything containing them) is salted per interpreter process (PYTHONHASHSEED):
                    # a value derived from it differs between two runs of the same program
                    hits.append(Hit("forbidden-callee", "hash (salted per process for str/bytes)", m.relpath, qual, n.lineno))
                if q in KEY_CTORS and n.args and all(isinstance(a, (ast.Constant, ast.UnaryOp)) for a in n.args):
                    hits.append(Hit("constant-key", ast.unparse(n), m.relpath, qual, n.lineno))
                if q.split(".")[-1] in COLLECTIVES and q.startswith("jax."):
                    hits.append(Hit("collective", q, m.relpath, qual, n.lineno))
                if q == "object.__setattr__":
                    hits.append(Hit("setattr", q, m.relpath, qual, n.lineno))
            for kw in n.keywords:
                if kw.arg == "axis_name":
                    hits.append(Hit("collective", "axis_name=", m.relpath, qual, n.lineno))
        elif isinstance(n, ast.Attribute) and not isinstance(n.ctx, ast.Load):
            base = n.value
            root = base
            while isinstance(root, (ast.Attribute, ast.Subscript)):
                root = root.value
            rname = root.id if isinstance(root, ast.Name) else None
            is_self_init = allow_self_assign and isinstance(base, ast.Name) and base.id == first
            if not is_self_init:
                if rname in params or rname is None or rname not in local:
                    hits.append(Hit("attribute-assignment", ast.unparse(n), m.relpath, qual, n.lineno))
        elif isinstance(n, ast.Attribute) and n.attr == "__dict__":
            hits.append(Hit("dict-access", ast.unparse(n), m.relpath, qual, n.lineno))
        elif isinstance(n, (ast.Global, ast.Nonlocal)):
            hits.append(Hit("global-state", ",".join(n.names), m.relpath, qual, n.lineno))
        elif isinstance(n, ast.Subscript) and not isinstance(n.ctx, ast.Load):
            root = n.value
            while isinstance(root, (ast.Attribute, ast.Subscript)):
                root = root.value
            if isinstance(root, ast.Name) and (root.id in params or root.id not in local):
                hits.append(Hit("item-assignment", ast.unparse(n), m.relpath, qual, n.lineno))
        elif isinstance(n, (ast.For, ast.comprehension)):
            it = n.iter
            if _set_valued(it, set_names):
                hits.append(Hit("set-iteration", ast.unparse(it)[:40], m.relpath, qual, n.iter.lineno))
        if isinstance(n, ast.Call) and isinstance(n.func, ast.Name) and n.func.id in ("list", "tuple", "iter", "enumerate", "zip", "next") and any(
                _set_valued(a, set_names) for a in n.args):
            # materialising a set in its iteration order is the same leak without a loop
            hits.append(Hit("set-iteration", ast.unparse(n)[:40], m.relpath, qual, n.lineno))
    return hits


SET_METHODS = {"union", "intersection", "difference", "symmetric_difference", "copy"}


def _set_valued(e: ast.expr, names: set[str]) -> bool:
    """the expression is a set / frozenset whatever its operands hold: its iteration order follows the elements' hashes, which for str /
    bytes are salted per interpreter process. Set displays and comprehensions, set() / frozenset(), the binary set algebra of dict views
    (`a.keys() & b.keys()` is a set, although each view alone is ordered), set methods, and a local name bound only to such values."""
    if isinstance(e, (ast.Set, ast.SetComp)):
        return True
    if isinstance(e, ast.Name):
        return e.id in names
    if isinstance(e, ast.Call):
        if isinstance(e.func, ast.Name) and e.func.id in ("set", "frozenset"):
            return True
        if isinstance(e.func, ast.Attribute) and e.func.attr in SET_METHODS and _set_valued(e.func.value, names):
            return True
        return False
    if isinstance(e, ast.BinOp) and isinstance(e.op, (ast.BitAnd, ast.BitOr, ast.Sub, ast.BitXor)):
        def view(x):
            return isinstance(x, ast.Call) and isinstance(x.func, ast.Attribute) and x.func.attr in ("keys", "items") and not x.args
        return _set_valued(e.left, names) or _set_valued(e.right, names) or view(e.left) or view(e.right)
    if isinstance(e, ast.IfExp):
        return _set_valued(e.body, names) and _set_valued(e.orelse, names)
    return False


def _set_names(fn: ast.FunctionDef) -> set[str]:
    """local names every binding of which is set-valued (fixpoint over plain assignments; a name that is also a parameter, a loop
    target or bound any other way is not counted)"""
    binds: dict[str, list] = {}
    other = {a.arg for a in ast.walk(fn) if isinstance(a, ast.arg)}
    for n in ast.walk(fn):
        if isinstance(n, ast.Assign) and len(n.targets) == 1 and isinstance(n.targets[0], ast.Name):
            binds.setdefault(n.targets[0].id, []).append(n.value)
        elif isinstance(n, ast.AnnAssign) and isinstance(n.target, ast.Name) and n.value is not None:
            binds.setdefault(n.target.id, []).append(n.value)
        elif isinstance(n, ast.Name) and isinstance(n.ctx, ast.Store):
            pass
    stores: dict[str, int] = {}
    for n in ast.walk(fn):
        if isinstance(n, ast.Name) and isinstance(n.ctx, ast.Store):
            stores[n.id] = stores.get(n.id, 0) + 1
    names: set[str] = set()
    while True:
        new = {k for k, vs in binds.items() if k not in other and stores.get(k, 0) == len(vs) and all(_set_valued(v, names) for v in vs)}
        if new == names:
            return names
        names = new


def _with_imports(m: ModuleInfo, extra: dict) -> ModuleInfo:
    m2 = ModuleInfo(m.name, m.path, m.tree, m.source, m.is_package, m.future_annotations, dict(m.imports), m.classes, m.functions, m.assigns, m.all)
    m2.imports.update(extra)
    return m2


CONTROL_SOURCE = """
import time
from datetime import datetime

from jax import random as jr


class Control:
    def stamp(self):
        return datetime.now().strftime("%H")

    def wait(self, dt):
        time.sleep(dt)

    def fixed_key(self):
        return jr.key(0)

    def remember(self, value):
        self.value = value
"""


def positive_control(prog: Program) -> list[Hit]:
    """The matcher run over a fixed sample that commits each kind of ambient effect once (wall clock, sleep, constant key, attribute
    assignment): what it reports shows the matcher is armed, independently of where the repository keeps such code."""
    tree = ast.parse(CONTROL_SOURCE)
    m = ModuleInfo("lerax._control", os.path.join(prog.src_root, "lerax", "_control.py"), tree, CONTROL_SOURCE, False)
    m.imports.update({"time": "time", "datetime": "datetime.datetime", "jr": "jax.random"})
    hits = []
    for fn in tree.body[-1].body:
        hits += scan_function(prog, m, f"lerax._control.Control.{fn.name}", fn)
    return hits


def control_armed(hits) -> tuple[bool, list[str]]:
    names = sorted({h.what.split("(")[0] for h in hits if h.kind in ("forbidden-callee", "constant-key")})
    ok = {"time.sleep", "datetime.datetime.now"} <= set(names) and any(h.kind == "constant-key" for h in hits) and any(h.kind == "attribute-assignment" for h in hits)
    return ok, names


def incomplete_equality(prog: Program, module_prefixes=("lerax.",), exempt_modules=("lerax.space",)) -> list[tuple]:
    """Classes that define `__eq__` without comparing all of their state. JAX and Equinox key their compilation caches on the equality
    and hash of static arguments (gymnax jits `step(self, ...)` with `self` static; `eqx.filter_jit` treats every non-array leaf - a
    wrapped function, a name - as static): two objects that compare equal although they are configured differently silently share one
    compiled program, i.e. one of them runs with the other's constants. A class's state is its dataclass fields plus every attribute
    its `__init__` assigns; each must be compared as a whole (`self.f == other.f`, `array_equal(self.f, other.f)`, a tuple of them) -
    reading only a sub-attribute (`self.env.name`, `self.func.__code__`) does not compare the field.
    Returns (class qualname, module relpath, lineno, [fields not compared])."""
    out = []
    for ci in prog.classes.values():
        if not ci.qualname.startswith(tuple(module_prefixes)) or ci.module.name.startswith(tuple(exempt_modules)):
            continue
        fn = ci.methods.get("__eq__")
        if fn is None:
            continue
        state = set(ci.fields)
        init = ci.methods.get("__init__")
        if init is not None:
            for n in ast.walk(init):
                tg = n.targets if isinstance(n, ast.Assign) else ([n.target] if isinstance(n, (ast.AnnAssign, ast.AugAssign)) else [])
                for t in tg:
                    for e in (t.elts if isinstance(t, (ast.Tuple, ast.List)) else [t]):
                        if isinstance(e, ast.Attribute) and isinstance(e.value, ast.Name) and e.value.id == "self":
                            state.add(e.attr)
        args = [a.arg for a in fn.args.posonlyargs + fn.args.args]
        if len(args) < 2:
            continue
        me, other = args[0], args[1]
        inner = {id(n.value) for n in ast.walk(fn) if isinstance(n, ast.Attribute)}  # attribute nodes that are only the base of another
        whole = {me: set(), other: set()}
        for n in ast.walk(fn):
            if isinstance(n, ast.Attribute) and isinstance(n.value, ast.Name) and n.value.id in whole and id(n) not in inner:
                whole[n.value.id].add(n.attr)
        # `other` may be re-bound after an isinstance / cast: any second name whose attributes mirror self's counts as the other operand
        others = set(whole[other])
        for n in ast.walk(fn):
            if isinstance(n, ast.Attribute) and isinstance(n.value, ast.Name) and n.value.id not in (me,) and id(n) not in inner:
                others.add(n.attr)
        missing = sorted(f for f in state if not (f in whole[me] and f in others))
        if missing:
            out.append((ci.qualname, ci.module.relpath, fn.lineno, missing))
    return out


def module_level_state(prog: Program, m: ModuleInfo) -> list[Hit]:
    """Module-level mutable containers that functions of the module mutate (counters, caches, shared defaults) - directly or
    through a local alias (`d = DEFAULTS; d |= overrides` rewrites DEFAULTS for every later user)."""
    hits = []
    mutable = set()
    for st in m.tree.body:
        tgt = val = None
        if isinstance(st, ast.Assign) and len(st.targets) == 1 and isinstance(st.targets[0], ast.Name):
            tgt, val = st.targets[0].id, st.value
        elif isinstance(st, ast.AnnAssign) and isinstance(st.target, ast.Name) and st.value is not None:
            tgt, val = st.target.id, st.value
        if tgt is None or tgt == "__all__":
            continue
        if isinstance(val, (ast.List, ast.Dict, ast.Set, ast.ListComp, ast.DictComp, ast.SetComp)) or (
                isinstance(val, ast.Call) and ast.unparse(val.func).split(".")[-1] in ("dict", "list", "set", "OrderedDict", "defaultdict", "deque")):
            mutable.add(tgt)
    MUTATORS = ("append", "add", "update", "extend", "pop", "setdefault", "clear", "insert", "remove", "popitem", "discard", "appendleft", "sort", "reverse", "__setitem__")
    for fn in ast.walk(m.tree):
        if not isinstance(fn, ast.FunctionDef):
            continue
        local = local_names(fn)
        # names that denote a module-level container inside this function: the container itself (unless shadowed) and plain aliases of it
        refers = {n_: n_ for n_ in mutable if n_ not in local or any(isinstance(g, ast.Global) and n_ in g.names for g in ast.walk(fn))}
        for n in ast.walk(fn):
            if isinstance(n, ast.Assign) and isinstance(n.value, ast.Name) and n.value.id in refers:
                for t in n.targets:
                    if isinstance(t, ast.Name):
                        refers[t.id] = refers[n.value.id]
        for n in ast.walk(fn):
            if isinstance(n, ast.Call) and isinstance(n.func, ast.Attribute) and isinstance(n.func.value, ast.Name) and n.func.value.id in refers and n.func.attr in MUTATORS:
                hits.append(Hit("module-state-mutation", f"{ast.unparse(n)[:60]} (module-level {refers[n.func.value.id]})", m.relpath, fn.name, n.lineno))
            if isinstance(n, ast.Subscript) and not isinstance(n.ctx, ast.Load) and isinstance(n.value, ast.Name) and n.value.id in refers:
                hits.append(Hit("module-state-mutation", f"{ast.unparse(n)[:60]} (module-level {refers[n.value.id]})", m.relpath, fn.name, n.lineno))
            if isinstance(n, ast.AugAssign) and isinstance(n.target, ast.Name) and n.target.id in refers:
                hits.append(Hit("module-state-mutation", f"{ast.unparse(n)[:60]} (in-place update of module-level {refers[n.target.id]})", m.relpath, fn.name, n.lineno))
    return hits


def cell_var_from_loop(fn: ast.FunctionDef) -> list[str]:
    """Function values created inside a loop body that read a variable the loop rebinds (its target, or a name assigned in the
    body) as a FREE variable: Python closures bind late, so every such function sees the value of the LAST iteration when it is
    called after the loop (`fns.append(lambda x: getattr(x, name))`). A default argument (`name=name`) binds early and is fine;
    so is a function that is called within the same statement. Returns readable hits."""
    hits = []
    for loop in ast.walk(fn):
        if not isinstance(loop, (ast.For, ast.While)):
            continue
        rebound = set()
        if isinstance(loop, ast.For):
            for t in ast.walk(loop.target):
                if isinstance(t, ast.Name):
                    rebound.add(t.id)
        for st in loop.body:
            for n in ast.walk(st):
                if isinstance(n, ast.Name) and isinstance(n.ctx, ast.Store):
                    rebound.add(n.id)
        for st in loop.body:
            # only function values that OUTLIVE the iteration matter: assigned, returned/yielded, put into a container literal or
            # handed to a container mutator; a lambda passed to an ordinary call (tree.map, sorted(key=...)) is used at once
            stored = set()
            for c in ast.walk(st):
                if isinstance(c, ast.Call) and isinstance(c.func, ast.Attribute) and c.func.attr in ("append", "extend", "insert", "add", "setdefault", "update", "appendleft", "__setitem__"):
                    for a_ in list(c.args) + [k.value for k in c.keywords]:
                        stored |= {id(x) for x in ast.walk(a_) if isinstance(x, ast.Lambda)}
                if isinstance(c, (ast.Assign, ast.AnnAssign, ast.AugAssign, ast.Return, ast.Yield)) and getattr(c, "value", None) is not None:
                    v = c.value
                    tops = [v] + (list(v.elts) if isinstance(v, (ast.Tuple, ast.List, ast.Set)) else []) + (list(v.values) if isinstance(v, ast.Dict) else [])
                    stored |= {id(x) for x in tops if isinstance(x, ast.Lambda)}
                if isinstance(c, ast.FunctionDef):
                    stored.add(id(c))
            for n in ast.walk(st):
                if isinstance(n, (ast.Lambda, ast.FunctionDef)) and id(n) in stored:
                    a = n.args
                    params = {x.arg for x in a.posonlyargs + a.args + a.kwonlyargs}
                    if a.vararg:
                        params.add(a.vararg.arg)
                    if a.kwarg:
                        params.add(a.kwarg.arg)
                    body = [n.body] if isinstance(n, ast.Lambda) else n.body
                    local_stores = {m.id for b_ in body for m in ast.walk(b_) if isinstance(m, ast.Name) and isinstance(m.ctx, ast.Store)}
                    free = {m.id for b_ in body for m in ast.walk(b_) if isinstance(m, ast.Name) and isinstance(m.ctx, ast.Load)} - params - local_stores
                    bad = sorted(free & rebound)
                    if bad:
                        hits.append(f"line {n.lineno}: a function created in the loop at line {loop.lineno} reads `{', '.join(bad)}` late (last iteration's value)")
    return hits


def python_bool_on_arrays(prog: Program, m: ModuleInfo, fn: ast.FunctionDef) -> list[str]:
    """`and` / `or` / `not` applied to an array-valued operand. Python evaluates these through bool(): under tracing that raises, and
    eagerly `flag and array` returns the Python object `False` (not a Bool array) when the flag is off. An operand counts as
    array-valued when it contains a bitwise inversion `~x`, a call of a method of `self`, or a jax / jax.numpy call."""
    hits = []

    def arrayish(e):
        for n in ast.walk(e):
            if isinstance(n, ast.UnaryOp) and isinstance(n.op, ast.Invert):
                return f"`{ast.unparse(n)[:50]}`"
            if isinstance(n, ast.Call):
                f = n.func
                if isinstance(f, ast.Attribute) and isinstance(f.value, ast.Name) and f.value.id == "self":
                    return f"`self.{f.attr}(...)`"
                q = qualname_of(prog, m, f, set())
                if q and q.startswith(("jax.", "mujoco.mjx.")) and q.split(".")[-1] not in ("shape", "ndim", "size", "issubdtype", "isscalar"):
                    return f"`{q}(...)`"
        return None

    for n in ast.walk(fn):
        ops = []
        if isinstance(n, ast.BoolOp):
            ops = n.values
            word = "and" if isinstance(n.op, ast.And) else "or"
        elif isinstance(n, ast.UnaryOp) and isinstance(n.op, ast.Not):
            ops = [n.operand]
            word = "not"
        for o in ops:
            a = arrayish(o)
            if a:
                hits.append(f"line {n.lineno}: Python `{word}` over the array value {a}")
                break
    return hits


def mutable_default_mutation(fn: ast.FunctionDef) -> list[str]:
    """A parameter whose default is a mutable literal ([] / {} / set() / dict() / list()) and that the body mutates: the default
    object is shared by every call that omits the argument, so state leaks from one call (one environment, one run) to the next."""
    hits = []
    a = fn.args
    pos = a.posonlyargs + a.args
    pairs = list(zip(pos[len(pos) - len(a.defaults):], a.defaults)) + [(p_, d) for p_, d in zip(a.kwonlyargs, a.kw_defaults) if d is not None]
    mut = set()
    for p_, d in pairs:
        if isinstance(d, (ast.List, ast.Dict, ast.Set)) or (isinstance(d, ast.Call) and ast.unparse(d.func).split(".")[-1] in ("dict", "list", "set", "OrderedDict", "defaultdict")):
            mut.add(p_.arg)
    if not mut:
        return hits
    MUTATORS = ("append", "add", "update", "extend", "pop", "setdefault", "clear", "insert", "remove", "popitem", "discard", "sort", "reverse")
    for n in ast.walk(fn):
        if isinstance(n, ast.Call) and isinstance(n.func, ast.Attribute) and isinstance(n.func.value, ast.Name) and n.func.value.id in mut and n.func.attr in MUTATORS:
            hits.append(f"line {n.lineno}: default argument `{n.func.value.id}` is mutated ({n.func.attr})")
        if isinstance(n, ast.Subscript) and not isinstance(n.ctx, ast.Load) and isinstance(n.value, ast.Name) and n.value.id in mut:
            hits.append(f"line {n.lineno}: default argument `{n.value.id}` is written by item assignment")
        if isinstance(n, ast.AugAssign) and isinstance(n.target, ast.Name) and n.target.id in mut:
            hits.append(f"line {n.lineno}: default argument `{n.target.id}` is updated in place")
        if isinstance(n, ast.Assign) and isinstance(n.value, ast.Name) and n.value.id in mut:
            for t in n.targets:
                if isinstance(t, ast.Attribute) and isinstance(t.value, ast.Name) and t.value.id == "self":
                    hits.append(f"line {n.lineno}: the shared default object `{n.value.id}` is stored on self.{t.attr} (every instance built without the argument shares it)")
    return hits


PINNED_WIDTHS = {"float16", "bfloat16", "float32", "float64", "int8", "int16", "int32", "int64", "uint8", "uint16", "uint32", "uint64"}


def pinned_width_literals(fn: ast.AST) -> list[str]:
    """`dtype=jnp.float32` / `.astype(jnp.int32)` and the like: a value built at a pinned bit width instead of the platform default
    (`float` / `int`). Beside values of the default width it is either promoted away or - under 64-bit mode - rounds what it holds
    (a discount factor kept at float32 in a float64 computation) or changes the dtype of a carried state against its own update."""
    out = []
    for c in ast.walk(fn):
        if isinstance(c, ast.Call):
            for kw in c.keywords:
                if kw.arg == "dtype" and ((isinstance(kw.value, ast.Attribute) and kw.value.attr in PINNED_WIDTHS) or (isinstance(kw.value, ast.Constant) and kw.value.value in PINNED_WIDTHS)):
                    out.append(f"line {c.lineno}: dtype={ast.unparse(kw.value)}")
            if isinstance(c.func, ast.Attribute) and c.func.attr == "astype" and c.args and ((isinstance(c.args[0], ast.Attribute) and c.args[0].attr in PINNED_WIDTHS)
                                                                                          or (isinstance(c.args[0], ast.Constant) and c.args[0].value in PINNED_WIDTHS)):
                out.append(f"line {c.lineno}: astype({ast.unparse(c.args[0])})")
            if isinstance(c.func, ast.Attribute) and c.func.attr in PINNED_WIDTHS and isinstance(c.func.value, ast.Name) and c.func.value.id in ("jnp", "np", "numpy"):
                out.append(f"line {c.lineno}: {ast.unparse(c.func)}(...)")
    return out
