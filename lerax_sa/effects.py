"""Ambient-effect scanning and key provenance (DESIGN.md §2.5).

AST-level scans over the functions of chosen modules/classes with callee names
resolved through each module's own import aliases (so `import time as t; t.time()`
and `from time import time` are the same callee).
"""
from __future__ import annotations

import ast
from dataclasses import dataclass

from .model import ClassInfo, ModuleInfo, Program

FORBIDDEN_PREFIXES = (
    "time.", "datetime.", "random.", "numpy.random.", "uuid.", "secrets.", "os.urandom", "os.environ", "os.getenv", "os.getpid",
    "threading.", "multiprocessing.", "socket.", "tempfile.",
)
FORBIDDEN_NAMES = {"id", "input", "open", "exec", "eval", "globals", "setattr", "delattr"}
# host round-trips whose result re-enters the traced computation (state outside the arguments)
HOST_CALLBACKS = {"jax.experimental.io_callback", "jax.pure_callback", "jax.experimental.host_callback.call"}
MEMO_DECORATORS = {"functools.lru_cache", "functools.cache", "functools.cached_property", "lru_cache", "cache", "cached_property"}
COLLECTIVES = {"psum", "pmean", "pmax", "pmin", "all_gather", "all_to_all", "ppermute", "axis_index", "pshuffle", "psum_scatter"}
KEY_CTORS = {"jax.random.key", "jax.random.PRNGKey", "jax.random.wrap_key_data"}


@dataclass
class Hit:
    kind: str
    what: str
    module: str
    func: str
    lineno: int

    def __str__(self):
        return f"{self.module}:{self.lineno} {self.func}: {self.kind} {self.what}"


def qualname_of(prog: Program, m: ModuleInfo, e: ast.expr, local: set[str]) -> str | None:
    parts = []
    while isinstance(e, ast.Attribute):
        parts.append(e.attr)
        e = e.value
    if not isinstance(e, ast.Name):
        return None
    if e.id in local:
        return None
    parts.reverse()
    q = prog.resolve_name(m, e.id, parts)
    if q is None:
        return ".".join([e.id] + parts)  # builtin root (object.__setattr__, setattr, id, ...)
    return q


def functions_of(prog: Program, module_filter=None, class_filter=None, method_filter=None):
    """Yield (module, class or None, qualified function name, FunctionDef) for top-level functions and methods."""
    for m in prog.modules.values():
        if module_filter is not None and not module_filter(m):
            continue
        for fn in m.functions.values():
            if class_filter is None:
                yield m, None, f"{m.name}.{fn.name}", fn
        for ci in m.classes.values():
            if class_filter is not None and not class_filter(ci):
                continue
            for name, fn in ci.methods.items():
                if method_filter is not None and not method_filter(ci, name):
                    continue
                yield m, ci, f"{ci.qualname}.{name}", fn


def local_names(fn: ast.FunctionDef) -> set[str]:
    out = set()
    for n in ast.walk(fn):
        if isinstance(n, ast.arg):
            out.add(n.arg)
        elif isinstance(n, ast.Name) and isinstance(n.ctx, ast.Store):
            out.add(n.id)
    return out


def scan_function(prog: Program, m: ModuleInfo, qual: str, fn: ast.FunctionDef, allow_self_assign: bool = False) -> list[Hit]:
    """Ambient effects of one function body (nested functions included)."""
    hits: list[Hit] = []
    local = local_names(fn)
    # function-local imports shadow nothing: resolve them like module imports
    local_imports = {}
    for n in ast.walk(fn):
        if isinstance(n, ast.Import):
            for a in n.names:
                local_imports[a.asname or a.name.split(".")[0]] = a.name if a.asname else a.name.split(".")[0]
        elif isinstance(n, ast.ImportFrom) and n.level == 0 and n.module:
            for a in n.names:
                local_imports[a.asname or a.name] = f"{n.module}.{a.name}"
    if local_imports:
        m = _with_imports(m, local_imports)
        local = local - set(local_imports)
    params = {a.arg for a in fn.args.posonlyargs + fn.args.args + fn.args.kwonlyargs}
    first = (fn.args.posonlyargs + fn.args.args)[0].arg if (fn.args.posonlyargs + fn.args.args) else None
    for sub in ast.walk(fn):
        if isinstance(sub, ast.FunctionDef):
            for d in sub.decorator_list:
                de = d.func if isinstance(d, ast.Call) else d
                q = qualname_of(prog, m, de, set())
                if q in MEMO_DECORATORS or (q or "").split(".")[-1] in ("lru_cache", "cached_property") or q == "functools.cache":
                    hits.append(Hit("memoization", q, m.relpath, qual, sub.lineno))
    for n in ast.walk(fn):
        if isinstance(n, ast.Call):
            q = qualname_of(prog, m, n.func, local - set(m.imports))
            if q is not None:
                if q in HOST_CALLBACKS:
                    hits.append(Hit("host-callback", q, m.relpath, qual, n.lineno))
                if any(q == p.rstrip(".") or q.startswith(p) for p in FORBIDDEN_PREFIXES) or q in FORBIDDEN_NAMES:
                    hits.append(Hit("forbidden-callee", q, m.relpath, qual, n.lineno))
                if q in KEY_CTORS and n.args and all(isinstance(a, (ast.Constant, ast.UnaryOp)) for a in n.args):
                    hits.append(Hit("constant-key", ast.unparse(n), m.relpath, qual, n.lineno))
                if q.split(".")[-1] in COLLECTIVES and q.startswith("jax."):
                    hits.append(Hit("collective", q, m.relpath, qual, n.lineno))
                if q == "object.__setattr__":
                    hits.append(Hit("setattr", q, m.relpath, qual, n.lineno))
            for kw in n.keywords:
                if kw.arg == "axis_name":
                    hits.append(Hit("collective", "axis_name=", m.relpath, qual, n.lineno))
        elif isinstance(n, ast.Attribute) and not isinstance(n.ctx, ast.Load):
            base = n.value
            root = base
            while isinstance(root, (ast.Attribute, ast.Subscript)):
                root = root.value
            rname = root.id if isinstance(root, ast.Name) else None
            is_self_init = allow_self_assign and isinstance(base, ast.Name) and base.id == first
            if not is_self_init:
                if rname in params or rname is None or rname not in local:
                    hits.append(Hit("attribute-assignment", ast.unparse(n), m.relpath, qual, n.lineno))
        elif isinstance(n, ast.Attribute) and n.attr == "__dict__":
            hits.append(Hit("dict-access", ast.unparse(n), m.relpath, qual, n.lineno))
        elif isinstance(n, (ast.Global, ast.Nonlocal)):
            hits.append(Hit("global-state", ",".join(n.names), m.relpath, qual, n.lineno))
        elif isinstance(n, ast.Subscript) and not isinstance(n.ctx, ast.Load):
            root = n.value
            while isinstance(root, (ast.Attribute, ast.Subscript)):
                root = root.value
            if isinstance(root, ast.Name) and (root.id in params or root.id not in local):
                hits.append(Hit("item-assignment", ast.unparse(n), m.relpath, qual, n.lineno))
        elif isinstance(n, (ast.For, ast.comprehension)):
            it = n.iter
            if isinstance(it, ast.Call) and isinstance(it.func, ast.Name) and it.func.id in ("set", "frozenset"):
                hits.append(Hit("set-iteration", ast.unparse(it), m.relpath, qual, n.iter.lineno))
            if isinstance(it, (ast.Set, ast.SetComp)):
                hits.append(Hit("set-iteration", ast.unparse(it)[:40], m.relpath, qual, n.iter.lineno))
    return hits


def _with_imports(m: ModuleInfo, extra: dict) -> ModuleInfo:
    m2 = ModuleInfo(m.name, m.path, m.tree, m.source, m.is_package, m.future_annotations, dict(m.imports), m.classes, m.functions, m.assigns, m.all)
    m2.imports.update(extra)
    return m2


def module_level_state(prog: Program, m: ModuleInfo) -> list[Hit]:
    """Module-level mutable containers that functions of the module mutate (counters, caches)."""
    hits = []
    mutable = {n for n, v in m.assigns.items() if isinstance(v, (ast.List, ast.Dict, ast.Set)) and n != "__all__"}
    for fn in ast.walk(m.tree):
        if not isinstance(fn, ast.FunctionDef):
            continue
        local = local_names(fn)
        for n in ast.walk(fn):
            if isinstance(n, ast.Call) and isinstance(n.func, ast.Attribute) and isinstance(n.func.value, ast.Name):
                if n.func.value.id in mutable and n.func.value.id not in local and n.func.attr in ("append", "add", "update", "extend", "pop", "setdefault", "clear"):
                    hits.append(Hit("module-state-mutation", ast.unparse(n)[:60], m.relpath, fn.name, n.lineno))
            if isinstance(n, ast.Subscript) and not isinstance(n.ctx, ast.Load) and isinstance(n.value, ast.Name) and n.value.id in mutable and n.value.id not in local:
                hits.append(Hit("module-state-mutation", ast.unparse(n)[:60], m.relpath, fn.name, n.lineno))
    return hits
