"""Rule framework: sessions, obligations, findings, evidence, exit codes."""
from __future__ import annotations

import ast
import json
import os
import re
import sys
import time
import traceback

from .model import REPO, AnalysisError, ClassInfo, ModuleInfo, Program
from .norm import Normalizer, show_term
from .vgraph import Builder, Closure, Ctx, Path, show

VERIF = os.path.dirname(os.path.dirname(os.path.abspath(__file__)))
KNOWN_FILE = os.path.join(VERIF, "known_findings.jsonl")
EVIDENCE_DIR = os.path.join(VERIF, "evidence")


def ref_module(prog: Program) -> ModuleInfo:
    """A pseudo-module giving reference expressions the usual aliases."""
    m = ModuleInfo("lerax.__ref__", "<reference>", ast.parse(""), "", False)
    m.imports.update({
        "jnp": "jax.numpy", "jr": "jax.random", "lax": "jax.lax", "eqx": "equinox", "np": "numpy",
        "jax": "jax", "math": "math", "optax": "optax", "mjx": "mujoco.mjx",
    })
    return m


_SIMPLE_INIT: dict = {}


def simple_init(prog: Program, qualname: str) -> bool:
    """A constructor is inlined by default only if its __init__ is straight-line field assignment."""
    if qualname in _SIMPLE_INIT:
        return _SIMPLE_INIT[qualname]
    ci = prog.classes.get(qualname)
    ok = False
    if ci is not None:
        r = prog.resolve_method(ci, "__init__")
        if r is not None:
            ok = True
            for st in r[1].body:
                if isinstance(st, ast.Expr) and isinstance(st.value, ast.Constant):
                    continue
                if isinstance(st, ast.FunctionDef):
                    continue
                def self_assign(x):
                    if isinstance(x, (ast.Assign, ast.AnnAssign)):
                        tg = x.targets if isinstance(x, ast.Assign) else [x.target]
                        return all(isinstance(t, ast.Attribute) and isinstance(t.value, ast.Name) and t.value.id == "self" for t in tg)
                    return False

                if self_assign(st):
                    continue
                # `if arg is (not) None: self.x = ... else: self.x = ...` (the statement form of a conditional default) is as simple
                if isinstance(st, ast.If) and all(self_assign(x) for x in st.body + st.orelse) and isinstance(st.test, ast.Compare) and len(st.test.ops) == 1 \
                        and isinstance(st.test.ops[0], (ast.Is, ast.IsNot)) and isinstance(st.test.comparators[0], ast.Constant) and st.test.comparators[0].value is None:
                    continue
                ok = False
                break
    _SIMPLE_INIT[qualname] = ok
    return ok


class Session:
    """One run of one property's rules over one Program."""

    def __init__(self, prog: Program, prop: str, tier: str = "quick"):
        self.prog = prog
        self.prop = prop
        self.tier = tier
        self.obligations: list[dict] = []
        self.findings: list[dict] = []
        self.sites: dict[str, int] = {}
        self.functions: set[str] = set()
        self.notes: list[str] = []
        self.undecided: list[str] = []
        self.controls: list[str] = []
        self.builders: list[Builder] = []
        self.anchors: set = set()
        self._refmod = ref_module(prog)

    # -- builders --------------------------------------------------------------
    def builder(self, inline=None, **kw) -> Builder:
        if isinstance(inline, (set, frozenset, list, tuple)):
            names = set(inline)

            def pol(kind, name, cls, names=names):
                if kind == "init":
                    return name in names or name.split(".")[-1] in names or simple_init(self.prog, name)
                short = name.split(".")[-1]
                return name in names or short in names or (kind == "property" and ("@property" in names))
            inline = pol
        base_pol = inline or (lambda kind, name, cls: False)
        known = known_names()

        def with_new_helpers(kind, name, cls, base_pol=base_pol):
            """inline what the rule asks for, plus any lerax function/method that did not exist in the pinned tree (a helper
            introduced by a later change is looked through, not treated as an uninterpreted call)"""
            if base_pol(kind, name, cls):
                return True
            if not known or kind not in ("method", "function", "property"):
                return False
            q = name if kind != "property" else (f"{cls.qualname}.{name}" if cls is not None else name)
            if not (q.startswith(self.prog.package + ".") and q not in known):
                return False
            if cls is not None and kind in ("method", "property"):
                # a method that existed under this name in a subclass or a superclass was moved along the hierarchy (pulled up / pushed
                # down), not introduced: it keeps the treatment the rule gives the method of that name
                short = q.rsplit(".", 1)[-1]
                for c in self.prog.classes.values():
                    if c is not cls and f"{c.qualname}.{short}" in known and (self.prog.is_subclass(c, cls) or self.prog.is_subclass(cls, c)):
                        return False
            return True
        b = Builder(self.prog, inline=with_new_helpers, **kw)
        self.builders.append(b)
        return b

    def method(self, cls_name: str, meth: str):
        """(ClassInfo analysed, defining ClassInfo, FunctionDef) resolved by name through the MRO."""
        ci = self.prog.cls(cls_name)
        r = self.prog.resolve_method(ci, meth)
        if r is None:
            raise AnalysisError(f"anchor {cls_name}.{meth} vanished")
        self.functions.add(f"{r[0].qualname}.{meth}")
        self.anchors.add((ci.qualname, meth))
        return ci, r[0], r[1]

    def unanalysed_overrides(self) -> list[str]:
        """Definitions of an anchor method in a subclass that did not exist in the pinned tree: the rules analyse the definition
        they resolved by name from the anchor class, so a later override would silently replace analysed behaviour."""
        known = known_names()
        out = []
        if not known:
            return out
        for cq, meth in sorted(self.anchors):
            ci = self.prog.classes.get(cq)
            if ci is None:
                continue
            for sub in self.prog.subclasses(ci):
                q = f"{sub.qualname}.{meth}"
                if meth in sub.methods and q not in known and not sub.is_abstractmethod(meth) and (sub.qualname, meth) not in self.anchors:
                    # (an override that a rule examined through the subclass itself - s.method(<subclass>, meth) - is analysed, not foreign)
                    out.append(f"{q} overrides the analysed {cq.rsplit('.', 1)[-1]}.{meth}")
        return sorted(set(out))

    def function(self, module: str, name: str):
        m = self.prog.modules.get(module)
        if m is None or name not in m.functions:
            raise AnalysisError(f"anchor {module}.{name} vanished")
        self.functions.add(f"{module}.{name}")
        return m, m.functions[name]

    def paths(self, b: Builder, cls_name: str, meth: str, binding=None, fixed=None) -> list[Path]:
        ci, dc, fn = self.method(cls_name, meth)
        return b.paths(fn, Ctx(dc.module, dc, fn, ci), binding, fixed=fixed)

    def fpaths(self, b: Builder, module: str, name: str, binding=None) -> list[Path]:
        m, fn = self.function(module, name)
        return b.paths(fn, Ctx(m, None, fn), binding)

    def loc(self, cls_name: str, meth: str | None = None) -> str:
        ci = self.prog.cls(cls_name)
        if meth is None:
            return self.prog.loc(ci.module, ci.node)
        r = self.prog.resolve_method(ci, meth)
        if r is None:
            return self.prog.loc(ci.module, ci.node)
        return self.prog.loc(r[0].module, r[1])

    def ref(self, b: Builder, expr: str, binding: dict):
        """Evaluate a reference expression (mini-language = Python expression) under a binding."""
        e = ast.parse(expr, mode="eval").body
        return b.ev(e, dict(binding), Ctx(self._refmod, None, None))

    def refprog(self, b: Builder, src: str, binding: dict) -> dict:
        """Run a straight-line reference program (assignments) and return its environment."""
        import textwrap

        tree = ast.parse(textwrap.dedent(src))
        env = dict(binding)
        b.run(tree.body, env, Ctx(self._refmod, None, None))
        return env

    # -- obligations -----------------------------------------------------------
    def ob(self, rule: str, construct: str, ok: bool, fact: str, loc: str = "", key: str = "", detail: str = "",
           necessary_for: str = ""):
        """Register one evaluated obligation. `key` is the stable slug identifying *what* fails."""
        self.sites[rule] = self.sites.get(rule, 0) + 1
        rec = {"rule": rule, "construct": construct, "fact": fact, "loc": loc, "status": "held" if ok else "VIOLATED"}
        if detail:
            rec["detail"] = detail[:1500]
        self.obligations.append(rec)
        if not ok:
            self.findings.append({
                "property": self.prop, "rule": rule, "construct": construct, "key": key or "fails",
                "loc": loc, "fact": fact, "detail": detail[:3000], "necessary_for": necessary_for,
            })
        return ok

    def eq(self, rule, construct, nz: Normalizer, got, want, fact, loc="", key="", necessary_for=""):
        cg, cw = nz.canon(got), nz.canon(want)
        ok = cg == cw
        detail = ""
        if not ok:
            da, db = diff_terms(cg, cw)
            detail = (f"first difference  code: {show_term(da, 400)}\n"
                      f"             reference: {show_term(db, 400)}\n"
                      f"code normal form:      {show_term(cg, 500)}\nreference normal form: {show_term(cw, 500)}")
        if ok:
            detail = f"NF: {show_term(cg, 300)}"
            self.sites[rule] = self.sites.get(rule, 0) + 1
            self.obligations.append({"rule": rule, "construct": construct, "fact": fact, "loc": loc, "status": "held",
                                     "detail": detail})
            return True
        return self.ob(rule, construct, False, fact, loc, key, detail, necessary_for)

    def undecide(self, rule, construct, why):
        self.undecided.append(f"{rule} {construct}: {why}")

    def control(self, text):
        self.controls.append(text)

    def floor(self, rule: str, minimum: int):
        """A rule that examined fewer sites than confirmed by hand is analysis-broken."""
        n = self.sites.get(rule, 0)
        if n < minimum:
            raise AnalysisError(f"rule={rule} examined {n} sites, confirmed floor is {minimum} (anchor vanished?)")


def diff_terms(a, b):
    """Smallest pair of differing sub-terms (descends while exactly one child differs)."""
    while isinstance(a, tuple) and isinstance(b, tuple) and len(a) == len(b) and a and b and a[0] == b[0]:
        diffs = [i for i in range(len(a)) if a[i] != b[i]]
        if len(diffs) != 1:
            break
        i = diffs[0]
        if not (isinstance(a[i], tuple) and isinstance(b[i], tuple)):
            break
        a, b = a[i], b[i]
    if (isinstance(a, tuple) and isinstance(b, tuple) and a and b and a[0] == b[0] == "call" and a[1] != b[1]
            and isinstance(a[1], str) and isinstance(b[1], str)):
        return ("k", "callee " + a[1]), ("k", "callee " + b[1])
    return a, b


def lowering_obligations(s):
    """If the analysis of this property went through lerax.utils.filter_cond / filter_scan (lowered to lax.cond / lax.scan), the
    lowering rule is part of what the verdict rests on: add its obligations under rule "<property>.L"."""
    used = set()
    for b in s.builders:
        used |= getattr(b, "lowered_idioms", set())
    rule = f"{s.prop}.L"
    if not used or rule in s.sites or any(r.endswith(".10") and s.prop == "C04" for r in s.sites):
        return
    from .rules.lowering import check_lowering
    check_lowering(s, rule)
    s.notes.append(f"{rule}: lowering rule added because the analysed code uses {sorted(used)}")


_KNOWN_NAMES = None


def known_names() -> frozenset:
    global _KNOWN_NAMES
    if _KNOWN_NAMES is None:
        p = os.path.join(os.path.dirname(os.path.abspath(__file__)), "known_names.txt")
        try:
            with open(p) as f:
                _KNOWN_NAMES = frozenset(ln.strip() for ln in f if ln.strip())
        except OSError:
            _KNOWN_NAMES = frozenset()
    return _KNOWN_NAMES


# ----------------------------------------------------------------------------- known findings
def load_known() -> list[dict]:
    """JSON lines = known findings; `fixed: property=<id> <commit> <what>` lines are records only."""
    out = []
    if os.path.exists(KNOWN_FILE):
        with open(KNOWN_FILE) as f:
            for line in f:
                line = line.strip()
                if line.startswith("{"):
                    out.append(json.loads(line))
    return out


def slug(s: str) -> str:
    return re.sub(r"[^A-Za-z0-9_.-]+", "_", s)[:80]


def analyse(prop: str, prog: Program, tier: str = "quick"):
    """Run a property's rules on a Program; returns (session | None, error text | None)."""
    import importlib

    mod = importlib.import_module(f"lerax_sa.rules.{prop}")
    s = Session(prog, prop, tier)
    try:
        mod.check(s)
        if tier == "thorough" and hasattr(mod, "check_thorough"):
            mod.check_thorough(s)
        lowering_obligations(s)
        ov = s.unanalysed_overrides()
        if ov:
            raise AnalysisError("new override(s) of analysed anchors are not covered by the rules: " + "; ".join(ov[:4]))
    except AnalysisError as e:
        return s, f"ANALYSIS-ERROR {e}"
    except Exception as e:  # noqa: BLE001
        return s, f"ANALYSIS-ERROR internal {type(e).__name__}: {e}"
    return s, None


def new_findings(s: Session) -> list[dict]:
    """Findings not listed as known."""
    known = [k for k in load_known() if k.get("property") == s.prop and k.get("status") == "known"]
    out = []
    for f in s.findings:
        if any(k["rule"] == f["rule"] and k["construct"] == f["construct"] and k.get("key", f["key"]) == f["key"] for k in known):
            continue
        out.append(f)
    return out


# ----------------------------------------------------------------------------- driver
def run_property(prop: str, tier: str, checker, explanation: str, assumptions: list[str], replay: str | None = None,
                 prog: Program | None = None, write_evidence: bool = True, quiet: bool = False) -> int:
    t0 = time.time()
    out = sys.stdout
    s = None
    aborted = None
    try:
        prog = prog or Program()
        s = Session(prog, prop, tier)
        checker(s)
        lowering_obligations(s)
        ov = s.unanalysed_overrides()
        if ov:
            raise AnalysisError("new override(s) of analysed anchors are not covered by the rules: " + "; ".join(ov[:4]))
    except AnalysisError as e:
        aborted = f"ANALYSIS-ERROR property={prop} {e}"
    except Exception as e:  # noqa: BLE001
        traceback.print_exc(file=sys.stderr)
        aborted = f"ANALYSIS-ERROR property={prop} internal: {type(e).__name__}: {e}"
    if aborted is not None:
        # a rule that already established a mismatch on a real construct stands, whatever broke afterwards: report it
        # as the violation it is; an aborted analysis with nothing established is analysis-broken (exit 2)
        if s is None or not new_findings(s):
            print(aborted, file=out)
            return 2
        s.notes.append("analysis aborted after the findings below were established: " + aborted)
        print(aborted + " (after confirmed findings; reporting them)", file=out)
    known = [k for k in load_known() if k.get("property") == prop]
    violations = 0
    seen_keys = set()
    lines = []
    for f in s.findings:
        fk = (f["rule"], f["construct"], f["key"])
        if fk in seen_keys:
            continue
        seen_keys.add(fk)
        match = [k for k in known if k.get("status") == "known" and k["rule"] == f["rule"]
                 and k["construct"] == f["construct"] and k.get("key", f["key"]) == f["key"]]
        if match:
            lines.append(f"KNOWN-FINDING: property={prop} rule={f['rule']} construct={f['construct']} "
                         f"{f['key']}: {match[0].get('what', f['fact'])}")
            f["status"] = "known"
            continue
        violations += 1
        f["status"] = "violation"
        rp = os.path.join(EVIDENCE_DIR, "replay", f"{prop}.{slug(f['rule'])}.{slug(f['construct'])}.{slug(f['key'])}.json")
        if write_evidence:
            os.makedirs(os.path.dirname(rp), exist_ok=True)
            with open(rp, "w") as fh:
                json.dump(f, fh, indent=1)
        lines.append(f"{f['loc']}: rule {f['rule']} [{f['construct']}] {f['key']}: {f['fact']}")
        if f["detail"]:
            lines.extend("    " + ln for ln in f["detail"].splitlines())
        if f["necessary_for"]:
            lines.append(f"    necessary for: {f['necessary_for']}")
        lines.append(f"VIOLATION property={prop} replay={rp}")
    wall = time.time() - t0
    held = sum(1 for o in s.obligations if o["status"] == "held")
    if not quiet:
        print(f"[{prop}/{tier}] analysed {len(s.functions)} anchor functions, {len(s.obligations)} obligations over "
              f"{len(s.sites)} rules ({held} held), {sum(b.node_count for b in s.builders)} graph nodes, "
              f"{sum(b.resolved_calls for b in s.builders)} resolved / {sum(b.unresolved_calls for b in s.builders)} "
              f"uninterpreted method calls, {len(s.undecided)} undecided, {wall:.2f}s", file=out)
        for r in sorted(s.sites):
            print(f"  rule {r}: {s.sites[r]} sites", file=out)
        for c in s.controls:
            print(f"  control: {c}", file=out)
        for u in s.undecided:
            print(f"  undecided: {u}", file=out)
        for ln in lines:
            print(ln, file=out)
    if write_evidence:
        distinct = {(o["rule"], o["construct"], o["fact"]) for o in s.obligations}
        samples = []
        seen_rules = set()
        for o in s.obligations:
            if o["rule"] not in seen_rules or o["status"] != "held":
                seen_rules.add(o["rule"])
                samples.append(o)
        ev = {
            "property_id": prop,
            "tier": tier,
            "seed": int(os.environ.get("VERIF_SEED", "0") or 0),
            "level": "other",
            "coverage": {
                "explanation": explanation,
                "evaluations": len(s.obligations),
                "distinct_nontrivial": len(distinct),
                "rule": "one evaluation = one rule obligation evaluated on a construct of the current /repo tree; "
                        "distinct = distinct (rule, construct, fact) triples; every counted obligation inspected a real "
                        "construct (rules with fewer sites than their hand-confirmed floor abort the run)",
                "samples": samples[:60],
                "functions_analysed": sorted(s.functions),
                "sites_per_rule": s.sites,
                "graph_nodes": sum(b.node_count for b in s.builders),
                "resolved_calls": sum(b.resolved_calls for b in s.builders),
                "uninterpreted_method_calls": sum(b.unresolved_calls for b in s.builders),
                "undecided": s.undecided,
                "positive_controls": s.controls,
                "notes": s.notes,
                "modules_parsed": len(prog.modules),
                "classes": len(prog.classes),
                "known_findings_reported": [f for f in s.findings if f.get("status") == "known"],
                "exhaustive": False,
            },
            "assumptions": assumptions,
            "wall_s": round(wall, 3),
            "violations": violations,
        }
        os.makedirs(EVIDENCE_DIR, exist_ok=True)
        with open(os.path.join(EVIDENCE_DIR, f"{prop}.json"), "w") as fh:
            json.dump(ev, fh, indent=1, default=str)
    return 1 if violations else 0
