"""Command line: /verif/check <PID> [--tier quick|thorough] [--replay FILE]"""
from __future__ import annotations

import argparse
import importlib
import json
import os
import sys


def main(argv=None) -> int:
    ap = argparse.ArgumentParser()
    ap.add_argument("prop")
    ap.add_argument("--tier", default=os.environ.get("VERIF_TIER", "quick"), choices=["quick", "thorough"])
    ap.add_argument("--replay", default=None)
    ap.add_argument("--no-evidence", action="store_true")
    a = ap.parse_args(argv)
    try:
        mod = importlib.import_module(f"lerax_sa.rules.{a.prop}")
    except ModuleNotFoundError:
        print(f"ANALYSIS-ERROR property={a.prop} not built")
        return 2
    from .core import run_property

    if a.replay:
        with open(a.replay) as f:
            rec = json.load(f)
        print(f"replaying finding rule={rec.get('rule')} construct={rec.get('construct')} key={rec.get('key')}: "
              f"re-running the property's rules on the current tree")
    checker = mod.check
    if a.tier == "thorough" and hasattr(mod, "check_thorough"):
        def checker(s, mod=mod):
            mod.check(s)
            mod.check_thorough(s)
    rc = run_property(a.prop, a.tier, checker, mod.EXPLANATION, mod.ASSUMPTIONS, replay=a.replay,
                      write_evidence=not a.no_evidence)
    if a.tier == "thorough" and rc in (0, 1) and not a.no_evidence:
        self_validation(a.prop)
    return rc


def self_validation(prop: str) -> None:
    """Thorough tier: run the mutant / variant catalogue for this property against the CURRENT tree and record the tally in the
    evidence. A missed mutant or an alarming variant is a weakness of the checker, not a violation of the property: it is printed
    and recorded, and does not change the exit code."""
    here = os.path.dirname(os.path.dirname(os.path.abspath(__file__)))
    sys.path.insert(0, here)
    from multiprocessing import Pool

    from selftest import generic, run as st_run
    from selftest.catalogue import ENTRIES

    def expected_here(e):
        # a mutant listed under several properties is expected to be reported by those its `expect` names; the others only run on it
        if e["kind"] != "mutant":
            return True
        exp = e["expect"] if isinstance(e["expect"], list) else [e["expect"]]
        return any(x.startswith(prop) for x in exp)

    entries = [e for e in list(ENTRIES) + generic.entries() if prop in e["props"] and expected_here(e)]
    st_run.ONLY.clear()
    st_run.ONLY.add(prop)
    with Pool(min(16, max(1, len(entries)))) as pool:
        results = pool.map(st_run.run_entry, entries, chunksize=1)
    from selftest import corpus
    centries = corpus.entries(prop)
    if centries:
        with Pool(min(16, max(1, len(centries)))) as pool:
            cres = pool.map(corpus.run_entry, centries, chunksize=1)
    else:
        cres = []
    ctally = {}
    for r in cres:
        ctally[r["status"]] = ctally.get(r["status"], 0) + 1
    print(f"[{prop}/thorough] archived seeded / behaviour-preserving changes re-applied in memory: {ctally}")
    for r in cres:
        if r["status"] in ("MISSED", "FALSE-ALARM", "error", "stale"):
            print(f"  CORPUS {r['status']}: {r['id']} {r.get('hits', [])[:2]} {r.get('errors', [])[:1]} {r.get('why', '')}")
    tally = {}
    for r in results:
        tally[r["status"]] = tally.get(r["status"], 0) + 1
    bad = [r for r in results if r["status"] in ("MISSED", "FALSE-ALARM", "error")]
    print(f"[{prop}/thorough] self-validation on the current tree: {tally}")
    for r in bad:
        print(f"  SELFTEST {r['status']}: {r['id']} {r.get('hits', [])[:3]} {r.get('errors', [])[:1]}")
    # operator sweep restricted to this property (a measuring device: survivors are equivalent mutants, changes outside the statement,
    # crashes or gaps - never violations); skipped with VERIF_NO_SWEEP=1
    sweep_res = None
    if os.environ.get("VERIF_NO_SWEEP") != "1":
        from selftest import sweep as _sweep
        t_sw = __import__("time").time()
        sweep_res = _sweep.run_for_property(prop)
        sweep_res["seconds"] = round(__import__("time").time() - t_sw, 1)
        print(f"[{prop}/thorough] operator sweep over {len(sweep_res['files'])} files the rules react to: {sweep_res['mutants']} single-operator mutants, {sweep_res['tally']} ({sweep_res['seconds']}s)")
    ev_path = os.path.join(here, "evidence", f"{prop}.json")
    try:
        with open(ev_path) as f:
            ev = json.load(f)
        if sweep_res is not None:
            ev["coverage"]["operator_sweep"] = dict(sweep_res, note="one operator-level change at a time (comparison flipped, operator / operands / arguments exchanged, constant moved, "
                                                    "paired name exchanged), at most 40 per file, analysed by this property's rules; a survivor is an equivalent mutant, a change "
                                                    "outside the statement, a crash no test suite lets through, or a gap (DESIGN.md 9.3) - not a violation")
        ev["coverage"]["self_validation"] = {
            "tally": tally,
            "mutants": [{"id": r["id"], "status": r["status"], "hits": r.get("hits", [])[:3]} for r in results if r.get("kind") == "mutant"],
            "variants_silent": sum(1 for r in results if r.get("kind") == "variant" and r["status"] == "silent"),
            "not_ok": [{"id": r["id"], "status": r["status"]} for r in bad],
            "note": "mutants/variants are textual edits of the current sources analysed in memory; stale = anchor text no longer present",
        }
        ev["coverage"]["corpus"] = {"tally": ctally, "entries": [{"id": r["id"], "status": r["status"], "hits": r.get("hits", [])[:2]} for r in cres],
                                    "note": "archived seeded changes (must be reported) and behaviour-preserving changes (must stay silent) from independent sub-agents, "
                                            "re-applied in memory to the current sources"}
        with open(ev_path, "w") as f:
            json.dump(ev, f, indent=1, default=str)
    except (OSError, ValueError):
        pass


if __name__ == "__main__":
    import signal

    try:
        signal.signal(signal.SIGPIPE, signal.SIG_DFL)
    except (AttributeError, ValueError):
        pass
    try:
        rc = main()
    except SystemExit:
        raise
    except BaseException as e:  # noqa: BLE001
        import traceback

        traceback.print_exc()
        print(f"ANALYSIS-ERROR internal: {type(e).__name__}: {e}")
        rc = 2
    sys.stdout.flush()
    os._exit(rc)
