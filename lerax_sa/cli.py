"""Command line: /verif/check <PID> [--tier quick|thorough] [--replay FILE]"""
from __future__ import annotations

import argparse
import importlib
import json
import os
import sys


def main(argv=None) -> int:
    ap = argparse.ArgumentParser()
    ap.add_argument("prop")
    ap.add_argument("--tier", default=os.environ.get("VERIF_TIER", "quick"), choices=["quick", "thorough"])
    ap.add_argument("--replay", default=None)
    ap.add_argument("--no-evidence", action="store_true")
    a = ap.parse_args(argv)
    try:
        mod = importlib.import_module(f"lerax_sa.rules.{a.prop}")
    except ModuleNotFoundError:
        print(f"ANALYSIS-ERROR property={a.prop} not built")
        return 2
    from .core import run_property

    if a.replay:
        with open(a.replay) as f:
            rec = json.load(f)
        print(f"replaying finding rule={rec.get('rule')} construct={rec.get('construct')} key={rec.get('key')}: "
              f"re-running the property's rules on the current tree")
    rc = run_property(a.prop, a.tier, mod.check, mod.EXPLANATION, mod.ASSUMPTIONS, replay=a.replay,
                      write_evidence=not a.no_evidence)
    if rc == 0 and a.tier == "thorough" and hasattr(mod, "selftest"):
        pass
    return rc


if __name__ == "__main__":
    try:
        rc = main()
    except SystemExit:
        raise
    except BaseException as e:  # noqa: BLE001
        import traceback

        traceback.print_exc()
        print(f"ANALYSIS-ERROR internal: {type(e).__name__}: {e}")
        rc = 2
    sys.stdout.flush()
    os._exit(rc)
