"""Cross-source reference: Gymnasium's environment sources, parsed (never imported) — DESIGN.md §2.6."""
from __future__ import annotations

import ast
import importlib.util
import os

from .model import AnalysisError, Program
from .vgraph import Builder, Closure, Ctx, mapnodes

_CACHE: dict = {}

WANTED = (
    "gymnasium/envs/classic_control/cartpole.py", "gymnasium/envs/classic_control/mountain_car.py",
    "gymnasium/envs/classic_control/continuous_mountain_car.py", "gymnasium/envs/classic_control/acrobot.py",
    "gymnasium/envs/classic_control/utils.py", "gymnasium/envs/mujoco/mujoco_env.py", "gymnasium/envs/mujoco/utils.py",
    "gymnasium/envs/mujoco/__init__.py", "gymnasium/envs/classic_control/__init__.py",
)


def load() -> Program:
    if "prog" in _CACHE:
        return _CACHE["prog"]
    spec = importlib.util.find_spec("gymnasium")
    if spec is None or not spec.submodule_search_locations:
        raise AnalysisError("Gymnasium reference source not found: cross-source analysis impossible")
    root = os.path.dirname(list(spec.submodule_search_locations)[0])

    def keep(rel):
        rel = rel.replace(os.sep, "/")
        return rel in WANTED or (rel.startswith("gymnasium/envs/mujoco/") and rel.endswith("_v5.py"))

    prog = Program(src_root=root, package="gymnasium", file_filter=keep)
    if len(prog.modules) < 15:
        raise AnalysisError(f"Gymnasium reference incomplete: {sorted(prog.modules)}")
    _CACHE["prog"] = prog
    _CACHE["version"] = _version(root)
    return prog


def _version(root):
    p = os.path.join(root, "gymnasium", "__init__.py")
    try:
        with open(p) as f:
            for line in f:
                if line.startswith("__version__"):
                    return line.split("=")[1].strip().strip("\"'")
    except OSError:
        pass
    return "unknown"


def version() -> str:
    load()
    return _CACHE.get("version", "unknown")


def cls(name: str):
    return load().cls(name)


def method(cname: str, mname: str):
    ci = cls(cname)
    r = load().resolve_method(ci, mname)
    if r is None:
        raise AnalysisError(f"Gymnasium reference {cname}.{mname} vanished")
    return ci, r[0], r[1]


def init_assigns(cname: str) -> dict:
    """`self.X = <expr>` assignments of the reference __init__ plus class-level constants (AST expressions)."""
    ci, dc, fn = method(cname, "__init__")
    out = dict(ci.assigns)
    for c in reversed(load().mro(ci)):
        out.update(c.assigns)
    for st in ast.walk(fn):
        if isinstance(st, ast.Assign) and len(st.targets) == 1 and isinstance(st.targets[0], ast.Attribute) and isinstance(st.targets[0].value, ast.Name) \
                and st.targets[0].value.id == "self":
            out.setdefault(st.targets[0].attr, st.value)
    return out


def init_defaults(cname: str) -> dict:
    ci, dc, fn = method(cname, "__init__")
    a = fn.args
    pos = a.posonlyargs + a.args
    out = {}
    for p, d in zip(pos[len(pos) - len(a.defaults):], a.defaults):
        out[p.arg] = d
    for p, d in zip(a.kwonlyargs, a.kw_defaults):
        if d is not None:
            out[p.arg] = d
    return out


def builder(inline_all: bool = True, merge_ifs: bool = False) -> Builder:
    prog = load()

    def pol(kind, name, c):
        if not inline_all:
            return False
        return kind in ("method", "property", "function") and not name.endswith(("__init__", ".render", ".step"))

    return Builder(prog, inline=pol, merge_ifs=merge_ifs, max_depth=4)


def to_common(n, data=("param", "$data")):
    """Rewrite reference-side vocabulary to lerax's: self._x -> self.x, self.data -> the data symbol."""
    self_ = ("param", "self")

    def f(x):
        if x and x[0] == "attr" and x[1] == self_ and isinstance(x[2], str):
            if x[2] == "data":
                return data
            if x[2].startswith("_") and not x[2].startswith("__"):
                return ("attr", self_, x[2][1:])
        return x

    return mapnodes(n, f)


def stmts_between(fn: ast.FunctionDef, start_var: str | None, stop_pred=None):
    """Top-level statements of fn starting at the assignment to `start_var` (or the beginning)."""
    body = list(fn.body)
    i0 = 0
    if start_var is not None:
        for i, st in enumerate(body):
            if isinstance(st, ast.Assign) and any(isinstance(t, ast.Name) and t.id == start_var for t in st.targets):
                i0 = i
                break
        else:
            raise AnalysisError(f"reference statement `{start_var} = ...` vanished in {fn.name}")
    out = []
    for st in body[i0:]:
        if stop_pred is not None and stop_pred(st):
            break
        out.append(st)
    return out


def asset_text(name: str) -> str | None:
    """Text of Gymnasium's MJCF asset gymnasium/envs/mujoco/assets/<name> (None when absent)."""
    prog = load()
    path = os.path.join(prog.src_root, "gymnasium", "envs", "mujoco", "assets", name)
    if not os.path.exists(path):
        return None
    with open(path, encoding="utf-8") as f:
        return f.read()
